#!/bin/bash
# run.sh <property> <quick|thorough|replay> [replay-file]
# Rebuilds everything that depends on /repo's working tree (hook server,
# the 16 runtime variants, vcheck) and runs one check.
set -u
cd "$(dirname "$0")"
ROOT=$(pwd)
export VERIF_ROOT=$ROOT
export GOFLAGS=-mod=mod GOPROXY=off
unset GOSUMDB GOTOOLCHAIN 2>/dev/null || true
ID=${1:?property id}
TIER=${2:-quick}
mkdir -p build/bin build/rt evidence replays

build() {
  (
    flock 9
    # hook server from the working tree
    (cd /repo && go build -tags verif -o "$ROOT/build/bin/pigeon-verif" .) || exit 2
    (cd /repo && go build -o "$ROOT/build/bin/pigeon" .) || exit 2
    go build -o build/bin/rtgen ./engine/rtgen || exit 2
    # regenerate variants only when the tool or generator changed
    SUM=$(sha256sum build/bin/pigeon-verif build/bin/rtgen | sha256sum | cut -d' ' -f1)
    if [ ! -f build/rt/.sum ] || [ "$(cat build/rt/.sum)" != "$SUM" ] || [ -s build/rt/broken.txt ]; then
      rm -rf build/rt && mkdir -p build/rt
      ./build/bin/rtgen -hook build/bin/pigeon-verif -out build/rt || exit 2
      echo "$SUM" > build/rt/.sum
    fi
    # map-order explorer: overlay copies of ast/builder with harness-chosen map iteration order
    go build -o build/bin/maporder ./engine/maporder || exit 2
    ./build/bin/maporder -out "$ROOT/build/overlay" >/dev/null || exit 2
    (cd /repo && go build -tags verif -overlay "$ROOT/build/overlay/overlay.json" -o "$ROOT/build/bin/pigeon-verif-order" .) || exit 2
    # A runtime variant that does not compile is a finding about the working tree
    # (emitted parsers for that flag set do not compile), not a harness failure:
    # it is replaced by a stub, recorded in build/rt/broken.txt, reported by C04
    # and skipped by the other checks.
    : > build/rt/broken.txt
    for v in build/rt/v[0-9][0-9]; do
      if ! go build ./$v >build/rt/$(basename $v).err 2>&1; then
        echo "$(basename $v): $(grep -v '^#' build/rt/$(basename $v).err | head -3 | tr '\n' ' ')" >> build/rt/broken.txt
        rm -f $v/*.go
        printf 'package %s\n' "$(basename $v)" > $v/stub.go
      fi
      rm -f build/rt/$(basename $v).err
    done
    go build -o build/bin/vcheck ./cmd/vcheck || exit 2
    # free-running race-detector pass for C18 (same scenario bodies, real sync.Pool)
    if [ "$ID" = "C18" ] || [ "$ID" = "setup" ]; then
      go build -race -o build/bin/vcheck-race ./cmd/vcheck || exit 2
    fi
  ) 9>build/.lock
}

if [ "$ID" = "setup" ]; then
  build; exit $?
fi
build || { echo "harness build failed" >&2; exit 2; }
if [ "$TIER" = "replay" ]; then
  exec ./build/bin/vcheck replay "$ID" "${3:?replay file}"
fi
exec ./build/bin/vcheck "$ID" "$TIER"
