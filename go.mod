module verif

go 1.25.0

require (
	github.com/mna/pigeon v0.0.0
	golang.org/x/tools v0.45.0
)

require (
	golang.org/x/mod v0.36.0 // indirect
	golang.org/x/sync v0.20.0 // indirect
)

replace github.com/mna/pigeon => /repo
