#!/usr/bin/env python3
"""seedprompt.py <property-id> <round> <worktree> : prints the brief handed to an independent
sub-agent that is asked for a property-breaking change (DESIGN.md section 10). The brief
contains the property text, the worktree path, the changes earlier rounds used for this
property (so that the new one differs in kind and location) and a preferred kind of change.
Nothing about the checks in /verif is included."""
import json, os, sys, glob

pid, rnd, wt = sys.argv[1], int(sys.argv[2]), sys.argv[3]
here = os.path.dirname(os.path.abspath(__file__))
prop = None
for l in open(os.path.join(here, 'properties.jsonl')):
    p = json.loads(l)
    if p['id'] == pid:
        prop = p
assert prop, pid

earlier = []
for d in sorted(glob.glob(os.path.join(here, 'seeded', pid + '*'))):
    try:
        m = json.load(open(os.path.join(d, 'meta.json')))
    except Exception:
        continue
    earlier.append('- %s (needs: %s)' % (m.get('change', '?'), m.get('needs_to_manifest', '?')))

KINDS = [
    'two cooperating sites that each look fine alone (e.g. a producer in builder/ or ast/ and a consumer in the runtime template), or a flag/option combination nobody would try first',
    'a multi-step history: something that only shows on a second or third call / build in the same process, or after a particular earlier operation',
    'the data the builder emits into the grammar literal (fields of the matcher/expr structs, want strings, tables, positions, names) rather than control flow of the runtime',
    'a boundary condition: an off-by-one, an empty/one-element/last-element case, an offset at end of input, a rune at the edge of a range, a width > 1 rune',
    'an optimisation or fast path that is correct for the common case and silently wrong for an uncommon construct combination',
]
kind = KINDS[(int(pid[1:]) + rnd) % len(KINDS)]

print(f"""You are helping to evaluate a verification harness for the Go project mna/pigeon (a PEG parser generator). Your job is to write ONE realistic, subtle change to the pigeon source code that BREAKS the property below while the code still compiles and the repository's existing test suite still passes - the kind of regression a maintainer could plausibly introduce in a refactoring or optimisation and that code review and the tests would not catch.

You work ONLY in your own scratch git worktree: {wt}  (a checkout of the project at its current commit). Do not touch /repo or /verif, do not read anything under /verif, do not commit anywhere. Every shell call needs: export GOFLAGS=-mod=mod GOPROXY=off   (do NOT set GOSUMDB or GOTOOLCHAIN; there is no network; builds work offline as they are).

## The property ({prop['id']}: {prop['title']})

{prop['statement']}

Quantifier: {prop['quantifier']['text']}

Why the repository's tests cannot settle it: {prop['why_tests_cant']}

Code anchors: {json.dumps(prop['anchors'].get('files'))}; mechanisms: {json.dumps(prop['anchors'].get('mechanism'))}

## Facts about the code base you need

- Generated parsers consist of the grammar literal emitted by builder/builder.go plus the runtime template. The template's source of truth is builder/static_code.go (build-tagged, never compiled); builder/generated_static_code.go is the same text as a Go string and is what NEW parsers get. If you change the runtime you must change BOTH files consistently (edit static_code.go, then run `go run ./bootstrap/cmd/static_code_generator/ -- builder/static_code.go builder/generated_static_code.go staticCode` or look at the Makefile for the exact command, or edit both by hand). The ~45 checked-in generated parsers (pigeon.go, test/*, examples/*) contain older copies of the runtime; leave them alone unless your change requires regenerating one (then `make` targets show how) - the repository's tests run those checked-in copies, which is one reason they cannot see a runtime change.
- The front-end is grammar/pigeon.peg -> pigeon.go (generated); ast/ holds the AST, the optimizer (ast_optimize.go) and the analyses; builder/left_recursion.go, builder/scc.go the left-recursion analysis; bootstrap/ the hand-written scanner/parser used to bootstrap.
- The test command is: go build ./... && go test -vet=off -count=1 ./...   (run it from the worktree root; all packages must stay ok).

## What to deliver

1. The change itself, as the working-tree diff of your worktree (do not commit). Keep it small (a few lines to a few dozen), plausible, and NOT something ordinary use would expose at once: it must need something specific to manifest (a particular construct combination, option combination, input shape, sequence of calls, interleaving, map order ...). It must not be a change that merely breaks everything, prints garbage, or panics on every grammar.
2. A demonstration under {wt}/demo/ : a script `demo/run.sh <tree>` that, given the path of a pigeon source tree, builds pigeon from THAT tree, generates whatever parser(s) it needs into a temp directory, runs a small Go program (or the tool itself) and exits 1 if the property is violated and 0 if it holds. It must exit 1 on your modified worktree and 0 on an unmodified checkout (you can create a second pristine copy with `git -C {wt} stash` / or `git worktree add --detach <dir> HEAD` under /tmp - remove it afterwards). Put a short demo/README.md next to it saying what the change is, what is needed for it to manifest, and why the existing tests do not see it. A generated parser can be compiled in a temp module with `go mod init x && go build` (no third-party imports are needed by generated parsers).
3. Verify yourself, and say so in your final answer: (a) `go build ./... && go test -vet=off -count=1 ./...` passes in the modified worktree, (b) demo/run.sh exits 1 on the modified tree, (c) exits 0 on a pristine tree.

## Constraints on WHAT to change

Earlier rounds already used the following changes for this property; yours must be different in kind AND in location (a different function, ideally a different file or mechanism):
{chr(10).join(earlier) if earlier else '- (none)'}

Preferred kind of change this time: {kind}.

If you notice in passing that the UNMODIFIED tree already violates the property for some input, say so in your final answer (with the grammar, flags and input) - that is valuable - but still deliver a change as described.

Final answer: a short report (what you changed, file:function, what it needs to manifest, the three verification results, any side observation about the unmodified tree). The diff stays in the worktree; the demo stays in {wt}/demo/.""")
