#!/bin/bash
# thorough_some.sh <ids...>: runs the registered thorough command of the named checks one after the other
# (their own internal deadlines), to see whether the deeper families stay silent on the unchanged tree.
cd "$(dirname "$0")"
./run.sh setup || exit 2
for id in "$@"; do
  ./run.sh $id thorough > /tmp/thorough_full.$id.log 2>&1
  echo "$id exit=$? $(grep -c '^VIOLATION' /tmp/thorough_full.$id.log) violations; $(grep "^$id thorough" /tmp/thorough_full.$id.log | cut -c1-200)"
done
