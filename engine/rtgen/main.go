// Command rtgen builds build/rt/v00..v15: the sixteen behaviourally distinct
// runtimes ("static code" after template expansion) of the working tree,
// each as an importable package with tick instrumentation, the sync shim
// and the loader glue. See DESIGN.md 2.1.
package main

import (
	"bytes"
	"flag"
	"fmt"
	"go/ast"
	"go/parser"
	"go/printer"
	"go/token"
	"os"
	"path/filepath"
	"sort"
	"strconv"
	"strings"

	"verif/engine/hook"
	"verif/engine/rtapi"
	"verif/engine/tmpl"
)

func die(f string, a ...any) {
	fmt.Fprintf(os.Stderr, "rtgen: "+f+"\n", a...)
	os.Exit(2)
}

func seed(fl rtapi.Flags, pkg string, classes bool) string {
	var b strings.Builder
	fmt.Fprintf(&b, "{\npackage %s\n}\n", pkg)
	body := "'a'"
	if classes {
		body = `[\pL]`
	}
	if fl.GlobalState {
		body += " #{ return nil }"
	}
	if fl.LeftRecursion {
		fmt.Fprintf(&b, "A <- A %s / 'b'\n", body)
	} else {
		fmt.Fprintf(&b, "A <- %s\n", body)
	}
	return b.String()
}

func isPrefixDecl(d ast.Decl) bool {
	switch d := d.(type) {
	case *ast.GenDecl:
		if d.Tok == token.VAR && len(d.Specs) == 1 {
			vs := d.Specs[0].(*ast.ValueSpec)
			return len(vs.Names) == 1 && vs.Names[0].Name == "g"
		}
	case *ast.FuncDecl:
		n := d.Name.Name
		if d.Recv != nil && len(n) > 2 && (strings.HasPrefix(n, "onA") || strings.HasPrefix(n, "callonA")) {
			return true
		}
	}
	return false
}

// staticStart returns the index of the first declaration of the static code: the var block that
// declares errNoRule (-1 if the working tree's template no longer has it). Every non-import
// declaration in front of it is grammar-specific, whatever it is called.
func staticStart(f *ast.File) int {
	for i, d := range f.Decls {
		if gd, ok := d.(*ast.GenDecl); ok && gd.Tok == token.VAR {
			for _, s := range gd.Specs {
				for _, n := range s.(*ast.ValueSpec).Names {
					if n.Name == "errNoRule" {
						return i
					}
				}
			}
		}
	}
	return -1
}

// cutSuffix returns the text after the last grammar-specific declaration.
func cutSuffix(src []byte) ([]byte, error) {
	fset := token.NewFileSet()
	f, err := parser.ParseFile(fset, "seed.go", src, parser.SkipObjectResolution)
	if err != nil {
		return nil, err
	}
	end := -1
	st := staticStart(f)
	for i, d := range f.Decls {
		if gd, ok := d.(*ast.GenDecl); ok && gd.Tok == token.IMPORT {
			continue
		}
		if isPrefixDecl(d) || (st >= 0 && i < st) {
			if e := fset.Position(d.End()).Offset; e > end {
				end = e
			}
		}
	}
	if end < 0 {
		return nil, fmt.Errorf("no var g in seed output")
	}
	return bytes.TrimLeft(src[end:], " \t\r\n"), nil
}

func main() {
	hookBin := flag.String("hook", "", "pigeon binary built with -tags verif")
	out := flag.String("out", "", "output directory (build/rt)")
	flag.Parse()
	if *hookBin == "" || *out == "" {
		die("usage: rtgen -hook BIN -out DIR")
	}
	srv, err := hook.Start(*hookBin)
	if err != nil {
		die("start hook: %v", err)
	}
	defer srv.Close()

	// rangeTable text: difference between a class seed and a plain seed.
	var rangeTable []byte
	{
		fl := rtapi.Flags{}
		r1, err := srv.Call(&hook.Req{Mode: "build", Text: []byte(seed(fl, "v", false))})
		if err != nil || r1.Err != "" || r1.Panic != "" {
			die("seed build failed: %v %+v", err, r1)
		}
		r2, err := srv.Call(&hook.Req{Mode: "build", Text: []byte(seed(fl, "v", true))})
		if err != nil || r2.Err != "" || r2.Panic != "" {
			die("class seed build failed: %v %+v", err, r2)
		}
		s1, err := cutSuffix(r1.Src)
		if err != nil {
			die("%v", err)
		}
		s2, err := cutSuffix(r2.Src)
		if err != nil {
			die("%v", err)
		}
		if !bytes.HasPrefix(s2, s1) {
			// static code of a class grammar is not plain static code + range table
			die("class seed suffix does not extend plain seed suffix")
		}
		rangeTable = s2[len(s1):]
	}

	var imports []string
	for idx := 0; idx < 16; idx++ {
		fl := rtapi.FlagsOf(idx)
		pkg := fmt.Sprintf("v%02d", idx)
		dir := filepath.Join(*out, pkg)
		if err := os.MkdirAll(dir, 0o755); err != nil {
			die("%v", err)
		}
		text := seed(fl, pkg, true)
		req := &hook.Req{Mode: "build", Text: []byte(text), Optimize: fl.Optimize, BasicLatin: fl.BasicLatin, LeftRec: fl.LeftRecursion}
		r, err := srv.Call(req)
		if err != nil || r.Err != "" || r.Panic != "" {
			die("variant %d build failed: %v %+v", idx, err, r)
		}
		suffix, err := cutSuffix(r.Src)
		if err != nil {
			die("variant %d: %v", idx, err)
		}
		if !bytes.HasSuffix(suffix, rangeTable) {
			die("variant %d: suffix does not end with range table text", idx)
		}
		suffix = suffix[:len(suffix)-len(rangeTable)]

		// formatted file through the real main()
		argv := []string{}
		if fl.Optimize {
			argv = append(argv, "-optimize-parser")
		}
		if fl.BasicLatin {
			argv = append(argv, "-optimize-basic-latin")
		}
		if fl.LeftRecursion {
			argv = append(argv, "-support-left-recursion")
		}
		m, err := srv.Call(&hook.Req{Mode: "main", Text: []byte(text), Argv: argv})
		if err != nil || m.Exit != 0 || m.Panic != "" {
			die("variant %d main failed: %v exit=%d panic=%s stderr=%s", idx, err, m.Exit, m.Panic, m.Stderr)
		}
		static, types, err := rewrite(m.Stdout, pkg)
		if err != nil {
			die("variant %d: %v", idx, err)
		}
		must(os.WriteFile(filepath.Join(dir, "static.go"), static, 0o644))
		sfx := fmt.Sprintf("package %s\n\nconst vSuffix = %s\n\nconst vRangeTable = %s\n", pkg, strconv.Quote(string(suffix)), strconv.Quote(string(rangeTable)))
		must(os.WriteFile(filepath.Join(dir, "suffix.go"), []byte(sfx), 0o644))
		data := tmpl.Data{Pkg: pkg, Index: idx, Types: types, Funcs: staticFuncs, HasState: fl.HasState(), HasMemo: fl.HasMemo()}
		for _, name := range []string{"glue.go", "vprobe.go", "run.go"} {
			src, err := tmpl.Render(name, data)
			if err != nil {
				die("%v", err)
			}
			must(os.WriteFile(filepath.Join(dir, name), src, 0o644))
		}
		imports = append(imports, fmt.Sprintf("\t_ \"verif/build/rt/%s\"", pkg))
	}
	must(os.MkdirAll(filepath.Join(*out, "all"), 0o755))
	all := "// Package all links the sixteen runtime variants. Generated by rtgen.\npackage all\n\nimport (\n" + strings.Join(imports, "\n") + "\n)\n"
	must(os.WriteFile(filepath.Join(*out, "all", "all.go"), []byte(all), 0o644))
}

func must(err error) {
	if err != nil {
		die("%v", err)
	}
}

// rewrite turns the formatted seed output into the runtime package source:
// grammar-specific declarations removed, package renamed, "sync" redirected
// to the shim, vtick inserted at every *parser method entry and loop body.
var staticFuncs []string

func rewrite(src []byte, pkg string) ([]byte, []string, error) {
	staticFuncs = nil
	fset := token.NewFileSet()
	f, err := parser.ParseFile(fset, "static.go", src, parser.ParseComments|parser.SkipObjectResolution)
	if err != nil {
		return nil, nil, err
	}
	f.Name.Name = pkg
	var decls []ast.Decl
	var types []string
	typeDecls := map[string]ast.Expr{}
	var typeOrder []string
	st := staticStart(f)
	for i, d := range f.Decls {
		if gd, ok := d.(*ast.GenDecl); ok && gd.Tok == token.IMPORT {
			decls = append(decls, d)
		} else if isPrefixDecl(d) || (st >= 0 && i < st) {
			continue
		} else {
			decls = append(decls, d)
		}
		switch d := d.(type) {
		case *ast.GenDecl:
			if d.Tok == token.IMPORT {
				for _, s := range d.Specs {
					is := s.(*ast.ImportSpec)
					if is.Path.Value == `"sync"` {
						is.Path.Value = `"verif/engine/vsync"`
						is.Name = ast.NewIdent("sync")
					}
				}
			}
			if d.Tok == token.TYPE {
				for _, s := range d.Specs {
					ts := s.(*ast.TypeSpec)
					typeDecls[ts.Name.Name] = ts.Type
					typeOrder = append(typeOrder, ts.Name.Name)
				}
			}
		case *ast.FuncDecl:
			if d.Recv == nil && d.Body != nil && d.Type.TypeParams == nil && d.Name.Name != "init" && d.Name.Name != "main" && d.Name.Name != "rangeTable" {
				staticFuncs = append(staticFuncs, d.Name.Name)
			}
			if d.Recv == nil || len(d.Recv.List) != 1 || d.Body == nil {
				continue
			}
			st, ok := d.Recv.List[0].Type.(*ast.StarExpr)
			if !ok {
				continue
			}
			if id, ok := st.X.(*ast.Ident); !ok || id.Name != "parser" {
				continue
			}
			if len(d.Recv.List[0].Names) != 1 {
				continue
			}
			recv := d.Recv.List[0].Names[0].Name
			tick := func() ast.Stmt {
				return &ast.ExprStmt{X: &ast.CallExpr{Fun: ast.NewIdent("vtick"), Args: []ast.Expr{ast.NewIdent(recv)}}}
			}
			ast.Inspect(d.Body, func(n ast.Node) bool {
				switch n := n.(type) {
				case *ast.ForStmt:
					n.Body.List = append([]ast.Stmt{tick()}, n.Body.List...)
				case *ast.RangeStmt:
					n.Body.List = append([]ast.Stmt{tick()}, n.Body.List...)
				case *ast.FuncLit:
					return true
				}
				return true
			})
			d.Body.List = append([]ast.Stmt{tick()}, d.Body.List...)
			// census hook: parseExpr(expr) is the one place where an expression is evaluated
			if d.Name.Name == "parseExpr" && len(d.Type.Params.List) == 1 && len(d.Type.Params.List[0].Names) == 1 {
				arg := d.Type.Params.List[0].Names[0].Name
				d.Body.List = append([]ast.Stmt{&ast.ExprStmt{X: &ast.CallExpr{Fun: ast.NewIdent("vexpr"), Args: []ast.Expr{ast.NewIdent(recv), ast.NewIdent(arg)}}}}, d.Body.List...)
			}
		}
	}
	// vResetGlobals re-initialises every package-level variable of the runtime, so
	// that an execution can start from the state of a freshly started process
	// ("cold start": lazily built shared tables, pools, caches).
	var reset bytes.Buffer
	reset.WriteString("\n// vResetGlobals puts every package-level variable of the runtime back to its initial value.\nfunc vResetGlobals() {\n")
	for _, d := range decls {
		gd, ok := d.(*ast.GenDecl)
		if !ok || gd.Tok != token.VAR {
			continue
		}
		for _, sp := range gd.Specs {
			vs := sp.(*ast.ValueSpec)
			for i, nm := range vs.Names {
				if nm.Name == "_" {
					continue
				}
				switch {
				case len(vs.Values) == len(vs.Names):
					var eb bytes.Buffer
					printer.Fprint(&eb, fset, vs.Values[i])
					fmt.Fprintf(&reset, "\t%s = %s\n", nm.Name, eb.String())
				case len(vs.Values) == 0 && vs.Type != nil:
					var tb bytes.Buffer
					printer.Fprint(&tb, fset, vs.Type)
					fmt.Fprintf(&reset, "\t%s = *new(%s)\n", nm.Name, tb.String())
				}
			}
		}
	}
	reset.WriteString("}\n")
	f.Decls = decls
	// drop comments attached to removed decls: keep only comments that lie
	// inside kept declarations or before the first one.
	var keep []*ast.CommentGroup
	for _, cg := range f.Comments {
		for _, d := range decls {
			if cg.Pos() >= d.Pos() && cg.End() <= d.End() {
				keep = append(keep, cg)
				break
			}
		}
	}
	f.Comments = keep
	sort.Strings(types)
	var buf bytes.Buffer
	if err := (&printer.Config{Mode: printer.UseSpaces | printer.TabIndent, Tabwidth: 8}).Fprint(&buf, fset, f); err != nil {
		return nil, nil, err
	}
	buf.Write(reset.Bytes())
	// every declared type a composite literal can be written for: struct, array, slice and map
	// types, and types defined in terms of such a type (type andExpr expr, type expr struct{...})
	var literalType func(e ast.Expr, depth int) bool
	literalType = func(e ast.Expr, depth int) bool {
		switch t := e.(type) {
		case *ast.StructType, *ast.ArrayType, *ast.MapType:
			return true
		case *ast.Ident:
			if u, ok := typeDecls[t.Name]; ok && depth < 20 {
				return literalType(u, depth+1)
			}
		}
		return false
	}
	for _, name := range typeOrder {
		if literalType(typeDecls[name], 0) {
			types = append(types, name)
		}
	}
	return buf.Bytes(), types, nil
}
