// Package sched is a controlled scheduler for a handful of goroutines plus a
// depth-first explorer over its choice points (scheduling decisions and
// environment answers) with a deviation bound and optional state-key pruning.
// Threads are real goroutines serialised by a baton: exactly one runs at a
// time, and it runs until its next hooked operation (Yield) or its end.
package sched

import (
	"fmt"
)

// Point is one choice point met during an execution.
type Point struct {
	Kind    string // "sched" or an environment kind
	N       int    // number of options
	Chosen  int
	Running bool   // sched: the previously running thread is still enabled (option 0)
	Key     string // abstract state key at this point (for pruning)
}

// Execution is the record of one complete run.
type Execution struct {
	Points  []Point
	Choices []int
	Steps   int
}

type event struct {
	tid  int
	done bool
	pan  any
}

type thread struct {
	id    int
	run   chan struct{}
	done  bool
	steps int
}

// Sched runs one execution.
type Sched struct {
	prefix  []int
	pos     int
	exec    *Execution
	threads []*thread
	events  chan event
	cur     int
	active  bool
	// KeyFn returns the abstract state key (nil: no keys).
	KeyFn func(steps []int) string
	// Err is set when a replay prefix does not fit the execution.
	Err error
}

// Yield is called by a thread at a hooked operation.
func (s *Sched) Yield(tid int, kind string) {
	if !s.active {
		return
	}
	s.threads[tid].steps++
	s.exec.Steps++
	s.events <- event{tid: tid}
	<-s.threads[tid].run
}

// YieldCurrent yields on behalf of the running thread (hooks that do not
// know the thread id, e.g. the pool shim).
func (s *Sched) YieldCurrent(kind string) {
	if !s.active {
		return
	}
	s.Yield(s.cur, kind)
}

func (s *Sched) steps() []int {
	out := make([]int, len(s.threads))
	for i, t := range s.threads {
		out[i] = t.steps
		if t.done {
			out[i] = -1
		}
	}
	return out
}

func (s *Sched) choose(kind string, n int, running bool) int {
	if n <= 1 {
		return 0
	}
	c := 0
	if s.pos < len(s.prefix) {
		c = s.prefix[s.pos]
		if c < 0 || c >= n {
			if s.Err == nil {
				s.Err = fmt.Errorf("replay diverged: choice %d of %d options at point %d (%s)", c, n, s.pos, kind)
			}
			c = 0
		}
	}
	s.pos++
	key := ""
	if s.KeyFn != nil {
		key = kind + "|" + s.KeyFn(s.steps())
	}
	s.exec.Points = append(s.exec.Points, Point{Kind: kind, N: n, Chosen: c, Running: running, Key: key})
	s.exec.Choices = append(s.exec.Choices, c)
	return c
}

// Choice is an environment choice made by the running thread.
func (s *Sched) Choice(kind string, n int) int {
	if !s.active {
		return 0
	}
	return s.choose(kind, n, false)
}

// Run executes the bodies under the given choice prefix (choice 0 after it).
func Run(prefix []int, keyFn func([]int) string, install func(*Sched), bodies []func(tid int)) (*Execution, error) {
	s := &Sched{prefix: prefix, exec: &Execution{}, events: make(chan event), KeyFn: keyFn, active: true}
	for i := range bodies {
		s.threads = append(s.threads, &thread{id: i, run: make(chan struct{})})
	}
	if install != nil {
		install(s)
	}
	for i, b := range bodies {
		i, b := i, b
		go func() {
			<-s.threads[i].run
			defer func() {
				s.events <- event{tid: i, done: true, pan: recover()}
			}()
			b(i)
		}()
	}
	live := len(bodies)
	running := -1
	var panicked any
	for live > 0 {
		var enabled []*thread
		runningEnabled := running >= 0 && !s.threads[running].done
		if runningEnabled {
			enabled = append(enabled, s.threads[running])
		}
		for _, t := range s.threads {
			if !t.done && !(runningEnabled && t.id == running) {
				enabled = append(enabled, t)
			}
		}
		c := s.choose("sched", len(enabled), runningEnabled)
		t := enabled[c]
		running = t.id
		s.cur = t.id
		t.run <- struct{}{}
		ev := <-s.events
		if ev.done {
			s.threads[ev.tid].done = true
			live--
			if ev.pan != nil && panicked == nil {
				panicked = ev.pan
			}
		}
	}
	s.active = false
	if panicked != nil {
		return s.exec, fmt.Errorf("thread panicked: %v", panicked)
	}
	return s.exec, s.Err
}

// Explorer is the depth-first search over choice prefixes.
type Explorer struct {
	Bound       int  // maximum number of deviations (preemptions + non-default environment answers); <0: unbounded
	Prune       bool // state-key pruning
	Executions  int
	States      int
	Transitions int
	seen        map[string]bool
	// RunOne performs one execution under a prefix and checks it; returning
	// false stops the search.
	RunOne func(prefix []int) (*Execution, bool)
	Stop   func() bool
}

func cost(p Point, alt int) int {
	if alt == 0 {
		return 0
	}
	if p.Kind == "sched" && !p.Running {
		return 0 // the running thread ended or blocked: switching is free
	}
	return 1
}

// Explore runs the search from the empty prefix.
func (e *Explorer) Explore() {
	e.seen = map[string]bool{}
	e.explore(nil, 0)
}

func (e *Explorer) explore(prefix []int, used int) bool {
	x, ok := e.RunOne(prefix)
	e.Executions++
	if !ok || x == nil {
		return false
	}
	for i := len(prefix); i < len(x.Points); i++ {
		if e.Stop != nil && e.Stop() {
			return false
		}
		p := x.Points[i]
		if e.Prune {
			if e.seen[p.Key] {
				continue
			}
			e.seen[p.Key] = true
		}
		e.States++
		for alt := 1; alt < p.N; alt++ {
			c := used + cost(p, alt)
			if e.Bound >= 0 && c > e.Bound {
				continue
			}
			e.Transitions++
			np := append(append([]int(nil), x.Choices[:i]...), alt)
			if !e.explore(np, c) {
				return false
			}
		}
	}
	return true
}
