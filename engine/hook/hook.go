// Package hook is the client of the request server compiled into pigeon with
// -tags verif (/repo/verif_hook.go).
package hook

import (
	"bufio"
	"encoding/binary"
	"encoding/json"
	"errors"
	"fmt"
	"io"
	"os"
	"os/exec"
	"time"
)

type Req struct {
	Mode    string   `json:"mode"`
	Text    []byte   `json:"text,omitempty"`
	Argv    []string `json:"argv,omitempty"`
	Stdin   []byte   `json:"stdin,omitempty"`
	UseFile bool     `json:"use_file,omitempty"`
	UseOut  bool     `json:"use_out,omitempty"`
	PreOut  []byte   `json:"pre_out,omitempty"`

	Optimize   bool     `json:"optimize,omitempty"`
	BasicLatin bool     `json:"basic_latin,omitempty"`
	Nolint     bool     `json:"nolint,omitempty"`
	LeftRec    bool     `json:"left_rec,omitempty"`
	OptGrammar bool     `json:"opt_grammar,omitempty"`
	Cache      bool     `json:"cache,omitempty"`
	AltEntry   []string `json:"alt_entry,omitempty"`
	Recv       string   `json:"recv,omitempty"`
	NoPrepare  bool     `json:"no_prepare,omitempty"`
	SameOpts   bool     `json:"same_opts,omitempty"`
	Order      []int    `json:"order,omitempty"`
}

// Site is one dynamic range-over-map occurrence (overlay build).
type Site struct {
	ID string `json:"id"`
	N  int    `json:"n"`
}

type Node struct {
	K       string   `json:"k"`
	P       [3]int   `json:"p"`
	V       []byte   `json:"v,omitempty"`
	I       bool     `json:"i,omitempty"`
	Inv     bool     `json:"inv,omitempty"`
	Chars   []rune   `json:"chars,omitempty"`
	Ranges  []rune   `json:"ranges,omitempty"`
	Classes []string `json:"classes,omitempty"`
	Labels  []string `json:"labels,omitempty"`
	Name    *Node    `json:"name,omitempty"`
	Display *Node    `json:"display,omitempty"`
	Code    *Node    `json:"code,omitempty"`
	Kids    []*Node  `json:"kids,omitempty"`

	Nullable bool `json:"nullable,omitempty"`
	LeftRec  bool `json:"leftrec,omitempty"`
	Leader   bool `json:"leader,omitempty"`
}

type Resp struct {
	Err     string   `json:"err,omitempty"`
	ErrKind string   `json:"err_kind,omitempty"`
	Panic   string   `json:"panic,omitempty"`
	AST     *Node    `json:"ast,omitempty"`
	HaveLR  bool     `json:"have_lr,omitempty"`
	Src     []byte   `json:"src,omitempty"`
	Exit    int      `json:"exit"`
	Stdout  []byte   `json:"stdout,omitempty"`
	Stderr  []byte   `json:"stderr,omitempty"`
	OutFile []byte   `json:"out_file,omitempty"`
	Classes []string `json:"classes,omitempty"`
	Sites   []Site   `json:"sites,omitempty"`
	// Hung is set by the client when the watchdog fired.
	Hung bool `json:"-"`
}

// Server is one hook server process.
type Server struct {
	Bin      string
	Env      []string
	cmd      *exec.Cmd
	in       io.WriteCloser
	out      *bufio.Reader
	Timeout  time.Duration
	Restarts int
}

func Start(bin string, env ...string) (*Server, error) {
	s := &Server{Bin: bin, Env: env, Timeout: 60 * time.Second}
	if err := s.start(); err != nil {
		return nil, err
	}
	return s, nil
}

func (s *Server) start() error {
	// the tool runs under an address-space limit (4 GiB, VERIF_HOOK_MEM_KB overrides): a change
	// that makes it allocate without bound must kill ONE server (reported as "died"), not the
	// machine; 16 workers x 4 GiB stay far below the memory of the sandbox
	memKB := os.Getenv("VERIF_HOOK_MEM_KB")
	if memKB == "" {
		memKB = "4194304"
	}
	cmd := exec.Command("/bin/sh", "-c", "ulimit -v "+memKB+" 2>/dev/null; exec \"$0\"", s.Bin)
	cmd.Env = append(append(os.Environ(), "PIGEON_VERIF_SERVE=1"), s.Env...)
	if st, err := os.Stat("/dev/shm"); err == nil && st.IsDir() {
		cmd.Env = append(cmd.Env, "TMPDIR=/dev/shm")
	}
	cmd.Stderr = os.Stderr
	in, err := cmd.StdinPipe()
	if err != nil {
		return err
	}
	out, err := cmd.StdoutPipe()
	if err != nil {
		return err
	}
	if err := cmd.Start(); err != nil {
		return err
	}
	s.cmd, s.in, s.out = cmd, in, bufio.NewReaderSize(out, 1<<16)
	return nil
}

func (s *Server) Close() {
	if s.cmd != nil {
		s.in.Close()
		done := make(chan struct{})
		go func() { s.cmd.Wait(); close(done) }()
		select {
		case <-done:
		case <-time.After(500 * time.Millisecond):
			s.cmd.Process.Kill()
			<-done
		}
		s.cmd = nil
	}
}

var ErrDied = errors.New("hook server died")

// Call sends one request. If the server does not answer within Timeout it
// is killed and restarted and Resp.Hung is set; if it dies (e.g. fatal
// error: stack overflow) it is restarted and ErrDied is returned.
func (s *Server) Call(req *Req) (*Resp, error) {
	b, err := json.Marshal(req)
	if err != nil {
		return nil, err
	}
	var lenb [4]byte
	binary.BigEndian.PutUint32(lenb[:], uint32(len(b)))
	type res struct {
		r   *Resp
		err error
	}
	ch := make(chan res, 1)
	go func() {
		if _, err := s.in.Write(append(lenb[:], b...)); err != nil {
			ch <- res{nil, err}
			return
		}
		var l [4]byte
		if _, err := io.ReadFull(s.out, l[:]); err != nil {
			ch <- res{nil, err}
			return
		}
		buf := make([]byte, binary.BigEndian.Uint32(l[:]))
		if _, err := io.ReadFull(s.out, buf); err != nil {
			ch <- res{nil, err}
			return
		}
		var r Resp
		if err := json.Unmarshal(buf, &r); err != nil {
			ch <- res{nil, err}
			return
		}
		ch <- res{&r, nil}
	}()
	select {
	case r := <-ch:
		if r.err != nil {
			s.Close()
			s.Restarts++
			if err := s.start(); err != nil {
				return nil, fmt.Errorf("restart: %w", err)
			}
			return nil, ErrDied
		}
		return r.r, nil
	case <-time.After(s.Timeout):
		s.Close()
		s.Restarts++
		if err := s.start(); err != nil {
			return nil, fmt.Errorf("restart: %w", err)
		}
		return &Resp{Hung: true}, nil
	}
}
