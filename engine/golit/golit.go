// Package golit turns the grammar-specific prefix of a pigeon-emitted file
// ("var g = &grammar{...}" plus the on*/callon* functions) into a neutral
// tree that the glue in every runtime variant package can rebuild into real
// values. Everything is read with go/parser; nothing is pattern-matched on
// text except the canonical block bodies the harness itself wrote.
package golit

import (
	"fmt"
	"go/ast"
	"go/parser"
	"go/token"
	"strconv"
	"strings"
)

type NodeKind int

const (
	NComposite NodeKind = iota
	NString
	NInt
	NBool
	NFuncRef
	NCall
	NNil
)

type Field struct {
	Name string
	Val  *Node
}

// Node is a neutral composite-literal tree.
type Node struct {
	Kind NodeKind
	Type string // composite: type name as written ("" when elided), e.g. "seqExpr", "[]any", "[128]bool"
	Ptr  bool   // &T{...}
	// Shared: the node is the value of a package-level variable of the prefix; every reference
	// to that variable yields this very node, and the loader builds ONE value for it (node
	// identity, i.e. pointer equality of grammar nodes, is part of what the builder emits)
	Shared bool
	Fields []Field
	Elems  []*Node
	// Index: explicit indices of Elems (array / slice literal written with "index: value"
	// elements); nil when every element is positional
	Index []int64
	// MapKeys: keys of a map literal (parallel to Elems)
	MapKeys []*Node
	Str     string
	Int     int64
	Bool    bool
	Func    string  // NFuncRef: method name ; NCall: function name
	Args    []*Node // NCall
}

// Block is one code block as emitted: the on<X> method and callon<X> trampoline.
type Block struct {
	Name      string   // e.g. "onA3"
	Ret       string   // "any,error" | "bool,error" | "error"
	Recv      string   // receiver name of the on method
	Params    []string // parameter names of the on method
	StackKeys []string // stack["k"] arguments passed by the trampoline, in order
	Helper    string   // vact | vpred | vnot | vstate (from the canonical body)
	ID        int
	BodyArgs  []string // label identifiers the body passes to the helper
	// BodyArgIdx[i] is the index into Params/StackKeys of BodyArgs[i]; -1 if
	// the body references an identifier that is not a parameter (compile error).
	BodyArgIdx []int
	Problems   []string
}

// Prefix is the parsed grammar-specific part of an emitted file.
type Prefix struct {
	G      *Node
	Blocks map[string]*Block // by on-name
	Order  []string          // on-names in emission order
	// Problems are things that would make the emitted file fail to compile.
	Problems []string
}

// SplitSuffix finds which of the known static-code texts the source ends
// with and returns the prefix text and the index, or -1.
func SplitSuffix(src []byte, variants [][]byte) (prefix []byte, idx int) {
	for i, v := range variants {
		if len(v) > 0 && len(src) >= len(v) && string(src[len(src)-len(v):]) == string(v) {
			return src[:len(src)-len(v)], i
		}
	}
	return nil, -1
}

// ParsePrefix parses the grammar-specific prefix.
func ParsePrefix(prefix []byte) (*Prefix, error) {
	text := string(prefix)
	fset := token.NewFileSet()
	f, err := parser.ParseFile(fset, "prefix.go", text, parser.SkipObjectResolution)
	if err != nil {
		// no package clause (grammar without initializer)?
		f2, err2 := parser.ParseFile(fset, "prefix.go", "package p\n"+text, parser.SkipObjectResolution)
		if err2 != nil {
			return nil, fmt.Errorf("golit: %v", err)
		}
		f = f2
	}
	p := &Prefix{Blocks: map[string]*Block{}}
	// other package-level variables of the prefix (the grammar literal may name them)
	pkgVars = map[string]ast.Expr{}
	pkgVarNodes = map[string]*Node{}
	for _, d := range f.Decls {
		if gd, ok := d.(*ast.GenDecl); ok && gd.Tok == token.VAR {
			for _, s := range gd.Specs {
				vs := s.(*ast.ValueSpec)
				if len(vs.Names) == len(vs.Values) {
					for i, nm := range vs.Names {
						if nm.Name != "g" {
							pkgVars[nm.Name] = vs.Values[i]
						}
					}
				}
			}
		}
	}
	ons := map[string]*ast.FuncDecl{}
	calls := map[string]*ast.FuncDecl{}
	for _, d := range f.Decls {
		switch d := d.(type) {
		case *ast.GenDecl:
			if d.Tok != token.VAR {
				continue
			}
			for _, s := range d.Specs {
				vs := s.(*ast.ValueSpec)
				if len(vs.Names) == 1 && vs.Names[0].Name == "g" && len(vs.Values) == 1 {
					n, err := conv(vs.Values[0])
					if err != nil {
						return nil, err
					}
					if p.G != nil {
						p.Problems = append(p.Problems, "duplicate var g")
					}
					p.G = n
				}
			}
		case *ast.FuncDecl:
			if d.Recv == nil || len(d.Recv.List) != 1 {
				continue
			}
			name := d.Name.Name
			switch {
			case strings.HasPrefix(name, "callon"):
				if _, dup := calls[name]; dup {
					p.Problems = append(p.Problems, "duplicate method "+name)
				}
				calls[name] = d
			case strings.HasPrefix(name, "on"):
				if _, dup := ons[name]; dup {
					p.Problems = append(p.Problems, "duplicate method "+name)
				} else {
					p.Order = append(p.Order, name)
				}
				ons[name] = d
			}
		}
	}
	if p.G == nil {
		return nil, fmt.Errorf("golit: no var g in prefix")
	}
	for _, name := range p.Order {
		b := &Block{Name: name}
		on := ons[name]
		if len(on.Recv.List[0].Names) == 1 {
			b.Recv = on.Recv.List[0].Names[0].Name
		}
		seen := map[string]bool{}
		if on.Type.Params != nil {
			for _, fl := range on.Type.Params.List {
				for _, nm := range fl.Names {
					if seen[nm.Name] {
						b.Problems = append(b.Problems, "duplicate parameter "+nm.Name+" in "+name)
					}
					if nm.Name == b.Recv {
						b.Problems = append(b.Problems, "parameter shadows receiver in "+name)
					}
					seen[nm.Name] = true
					b.Params = append(b.Params, nm.Name)
				}
			}
		}
		b.Ret = retSig(on.Type.Results)
		call := calls["call"+name]
		if call == nil {
			b.Problems = append(b.Problems, "missing call"+name)
		} else {
			keys, err := stackKeys(call, name)
			if err != nil {
				b.Problems = append(b.Problems, err.Error())
			}
			b.StackKeys = keys
			if retSig(call.Type.Results) != b.Ret {
				b.Problems = append(b.Problems, "signature mismatch "+name)
			}
		}
		if len(b.StackKeys) != len(b.Params) {
			b.Problems = append(b.Problems, fmt.Sprintf("%s: %d params, %d stack args", name, len(b.Params), len(b.StackKeys)))
		} else {
			for i := range b.Params {
				if b.Params[i] != b.StackKeys[i] {
					b.Problems = append(b.Problems, fmt.Sprintf("%s: param %s bound to stack[%q]", name, b.Params[i], b.StackKeys[i]))
				}
			}
		}
		parseBody(b, on)
		p.Blocks[name] = b
		p.Problems = append(p.Problems, b.Problems...)
	}
	for name := range calls {
		if ons[strings.TrimPrefix(name, "call")] == nil {
			p.Problems = append(p.Problems, "trampoline without method: "+name)
		}
	}
	return p, nil
}

func retSig(fl *ast.FieldList) string {
	if fl == nil {
		return ""
	}
	var parts []string
	for _, f := range fl.List {
		n := len(f.Names)
		if n == 0 {
			n = 1
		}
		for i := 0; i < n; i++ {
			if id, ok := f.Type.(*ast.Ident); ok {
				parts = append(parts, id.Name)
			} else {
				parts = append(parts, "?")
			}
		}
	}
	return strings.Join(parts, ",")
}

// stackKeys extracts the stack["k"] arguments of "return p.cur.onX(...)".
func stackKeys(call *ast.FuncDecl, on string) ([]string, error) {
	var keys []string
	var found bool
	var ferr error
	ast.Inspect(call.Body, func(n ast.Node) bool {
		ret, ok := n.(*ast.ReturnStmt)
		if !ok || len(ret.Results) != 1 {
			return true
		}
		ce, ok := ret.Results[0].(*ast.CallExpr)
		if !ok {
			return true
		}
		sel, ok := ce.Fun.(*ast.SelectorExpr)
		if !ok || sel.Sel.Name != on {
			ferr = fmt.Errorf("call%s does not call %s", on, on)
			return false
		}
		found = true
		for _, a := range ce.Args {
			ix, ok := a.(*ast.IndexExpr)
			if !ok {
				ferr = fmt.Errorf("call%s: unexpected argument form", on)
				return false
			}
			lit, ok := ix.Index.(*ast.BasicLit)
			if !ok || lit.Kind != token.STRING {
				ferr = fmt.Errorf("call%s: unexpected index form", on)
				return false
			}
			s, _ := strconv.Unquote(lit.Value)
			keys = append(keys, s)
		}
		return false
	})
	if !found && ferr == nil {
		ferr = fmt.Errorf("call%s: no return call", on)
	}
	return keys, ferr
}

// parseBody recognises the canonical body "return vxxx(c, <id>, args...)".
func parseBody(b *Block, on *ast.FuncDecl) {
	if on.Body == nil || len(on.Body.List) != 1 {
		b.Helper = ""
		return
	}
	ret, ok := on.Body.List[0].(*ast.ReturnStmt)
	if !ok || len(ret.Results) != 1 {
		return
	}
	ce, ok := ret.Results[0].(*ast.CallExpr)
	if !ok {
		return
	}
	fn, ok := ce.Fun.(*ast.Ident)
	if !ok || len(ce.Args) < 2 {
		return
	}
	if recv, ok := ce.Args[0].(*ast.Ident); !ok || recv.Name != b.Recv {
		b.Problems = append(b.Problems, b.Name+": body does not pass the receiver")
	}
	lit, ok := ce.Args[1].(*ast.BasicLit)
	if !ok || lit.Kind != token.INT {
		return
	}
	id, _ := strconv.Atoi(lit.Value)
	b.Helper, b.ID = fn.Name, id
	for _, a := range ce.Args[2:] {
		idn, ok := a.(*ast.Ident)
		if !ok {
			b.Problems = append(b.Problems, b.Name+": non-identifier body argument")
			continue
		}
		b.BodyArgs = append(b.BodyArgs, idn.Name)
		idx := -1
		for i, p := range b.Params {
			if p == idn.Name {
				idx = i
			}
		}
		if idx < 0 {
			b.Problems = append(b.Problems, fmt.Sprintf("%s: body uses %s which is not a parameter", b.Name, idn.Name))
		}
		b.BodyArgIdx = append(b.BodyArgIdx, idx)
	}
}

func typeString(e ast.Expr) string {
	switch t := e.(type) {
	case nil:
		return ""
	case *ast.Ident:
		return t.Name
	case *ast.StarExpr:
		return "*" + typeString(t.X)
	case *ast.SelectorExpr:
		return typeString(t.X) + "." + t.Sel.Name
	case *ast.ArrayType:
		if t.Len == nil {
			return "[]" + typeString(t.Elt)
		}
		if l, ok := t.Len.(*ast.BasicLit); ok {
			return "[" + l.Value + "]" + typeString(t.Elt)
		}
		return "[?]" + typeString(t.Elt)
	case *ast.MapType:
		return "map[" + typeString(t.Key) + "]" + typeString(t.Value)
	case *ast.InterfaceType:
		return "any"
	}
	return fmt.Sprintf("?%T", e)
}

// pkgVars: package-level variables of the prefix being parsed (ParsePrefix is not re-entrant).
var pkgVars map[string]ast.Expr
var pkgVarNodes map[string]*Node
var convDepth int

func constIndex(e ast.Expr) (int64, bool) {
	n, err := conv(e)
	if err != nil || n.Kind != NInt {
		return 0, false
	}
	return n.Int, true
}

func conv(e ast.Expr) (*Node, error) {
	convDepth++
	defer func() { convDepth-- }()
	if convDepth > 200 {
		return nil, fmt.Errorf("golit: expression too deep (cyclic variable reference?)")
	}
	switch x := e.(type) {
	case *ast.UnaryExpr:
		if x.Op == token.AND {
			n, err := conv(x.X)
			if err != nil {
				return nil, err
			}
			if n.Kind != NComposite {
				return nil, fmt.Errorf("golit: & of non-composite")
			}
			n.Ptr = true
			return n, nil
		}
		if x.Op == token.SUB {
			n, err := conv(x.X)
			if err != nil {
				return nil, err
			}
			n.Int = -n.Int
			return n, nil
		}
	case *ast.CompositeLit:
		n := &Node{Kind: NComposite, Type: typeString(x.Type)}
		_, isArray := x.Type.(*ast.ArrayType)
		if _, isMap := x.Type.(*ast.MapType); isMap {
			for _, el := range x.Elts {
				kv, ok := el.(*ast.KeyValueExpr)
				if !ok {
					return nil, fmt.Errorf("golit: map literal element without key")
				}
				k, err := conv(kv.Key)
				if err != nil {
					return nil, err
				}
				v, err := conv(kv.Value)
				if err != nil {
					return nil, err
				}
				n.MapKeys = append(n.MapKeys, k)
				n.Elems = append(n.Elems, v)
			}
			return n, nil
		}
		next := int64(0)
		indexed := false
		var index []int64
		for _, el := range x.Elts {
			if kv, ok := el.(*ast.KeyValueExpr); ok {
				key, isIdent := kv.Key.(*ast.Ident)
				if isIdent && !isArray {
					v, err := conv(kv.Value)
					if err != nil {
						return nil, err
					}
					n.Fields = append(n.Fields, Field{key.Name, v})
					continue
				}
				// "index: value" element of an array or slice literal
				ix, ok := constIndex(kv.Key)
				if !ok {
					return nil, fmt.Errorf("golit: unsupported key in composite literal")
				}
				v, err := conv(kv.Value)
				if err != nil {
					return nil, err
				}
				n.Elems = append(n.Elems, v)
				index = append(index, ix)
				next = ix + 1
				indexed = true
			} else {
				v, err := conv(el)
				if err != nil {
					return nil, err
				}
				n.Elems = append(n.Elems, v)
				index = append(index, next)
				next++
			}
		}
		if indexed {
			n.Index = index
		}
		return n, nil
	case *ast.BasicLit:
		switch x.Kind {
		case token.STRING:
			s, err := strconv.Unquote(x.Value)
			if err != nil {
				return nil, err
			}
			return &Node{Kind: NString, Str: s}, nil
		case token.INT:
			i, err := strconv.ParseInt(x.Value, 0, 64)
			if err != nil {
				// a constant above MaxInt64 (a uint64 mask): kept as its bit pattern; the loader
				// converts NInt to the wanted type the way Go converts int64 -> uint64
				u, err2 := strconv.ParseUint(x.Value, 0, 64)
				if err2 != nil {
					return nil, err
				}
				i = int64(u)
			}
			return &Node{Kind: NInt, Int: i}, nil
		case token.CHAR:
			s := x.Value
			r, _, _, err := strconv.UnquoteChar(s[1:len(s)-1], '\'')
			if err != nil {
				return nil, err
			}
			return &Node{Kind: NInt, Int: int64(r)}, nil
		}
	case *ast.Ident:
		switch x.Name {
		case "true":
			return &Node{Kind: NBool, Bool: true}, nil
		case "false":
			return &Node{Kind: NBool, Bool: false}, nil
		case "nil":
			return &Node{Kind: NNil}, nil
		}
		if v, ok := pkgVars[x.Name]; ok {
			// another package-level variable of the emitted prefix: its value (one node per variable)
			if n, ok := pkgVarNodes[x.Name]; ok {
				return n, nil
			}
			n, err := conv(v)
			if err != nil {
				return nil, err
			}
			if n.Kind == NComposite {
				n.Shared = true
				pkgVarNodes[x.Name] = n
			}
			return n, nil
		}
	case *ast.SelectorExpr:
		// (*parser).callonX
		if par, ok := x.X.(*ast.ParenExpr); ok {
			if typeString(par.X) == "*parser" {
				return &Node{Kind: NFuncRef, Func: x.Sel.Name}, nil
			}
		}
	case *ast.CallExpr:
		if fn, ok := x.Fun.(*ast.Ident); ok {
			n := &Node{Kind: NCall, Func: fn.Name}
			for _, a := range x.Args {
				v, err := conv(a)
				if err != nil {
					return nil, err
				}
				n.Args = append(n.Args, v)
			}
			return n, nil
		}
	}
	return nil, fmt.Errorf("golit: unsupported expression %T", e)
}

// Get returns the named field of a composite node or nil.
func (n *Node) Get(name string) *Node {
	for _, f := range n.Fields {
		if f.Name == name {
			return f.Val
		}
	}
	return nil
}

// Count returns the number of composite nodes whose type ends in "Expr" or
// "Matcher" (the expression nodes of the emitted grammar).
func (n *Node) CountExprs() int {
	if n == nil {
		return 0
	}
	c := 0
	if n.Kind == NComposite && (strings.HasSuffix(n.Type, "Expr") || strings.HasSuffix(n.Type, "Matcher")) {
		c = 1
	}
	for _, f := range n.Fields {
		c += f.Val.CountExprs()
	}
	for _, e := range n.Elems {
		c += e.CountExprs()
	}
	return c
}
