// Package vsync replaces "sync" in the harness copies of the generated
// runtime. Only sync.Pool is used by the runtime. The shim is deterministic
// (LIFO) by default, monitors the pool discipline, and lets the controlled
// scheduler decide what Get returns.
package vsync

import (
	"fmt"
	"reflect"
	realsync "sync"
)

// Everything else of package sync is the real thing (a change of the runtime
// may start using it; only Pool needs to be observable).
type (
	Map       = realsync.Map
	Mutex     = realsync.Mutex
	RWMutex   = realsync.RWMutex
	Once      = realsync.Once
	WaitGroup = realsync.WaitGroup
	Cond      = realsync.Cond
	Locker    = realsync.Locker
)

var (
	NewCond  = realsync.NewCond
	OnceFunc = realsync.OnceFunc
)

type Pool struct {
	New   func() any
	items []any
	real  realsync.Pool
	once  realsync.Once
}

var (
	// UseReal delegates to the real sync.Pool (free-running -race pass).
	UseReal bool
	// Monitor enables the discipline checks.
	Monitor = true
	// Violations collects discipline breaches (cleared by Reset).
	Violations []string
	// Hook is called before every Get/Put (scheduling point).
	Hook func(op string)
	// Choose decides what Get returns: an index into the n pooled items
	// (0 = most recently put) or n for a fresh item. nil => 0 (or fresh if empty).
	Choose func(n int) int
	// Gets, Puts count operations since Reset.
	Gets, Puts int
	pools      []*Pool
)

// Reset empties every pool and clears the counters.
func Reset() {
	for _, p := range pools {
		p.items = nil
	}
	pools = nil
	Violations = nil
	Gets, Puts = 0, 0
}

// Pooled returns the number of items currently pooled in all pools.
func Pooled() int {
	n := 0
	for _, p := range pools {
		n += len(p.items)
	}
	return n
}

func (p *Pool) register() {
	for _, q := range pools {
		if q == p {
			return
		}
	}
	pools = append(pools, p)
}

func mapLen(x any) (int, bool) {
	v := reflect.ValueOf(x)
	if v.Kind() != reflect.Map {
		return 0, false
	}
	return v.Len(), true
}

func ident(x any) uintptr {
	v := reflect.ValueOf(x)
	switch v.Kind() {
	case reflect.Map, reflect.Pointer, reflect.Slice, reflect.Chan, reflect.Func, reflect.UnsafePointer:
		return v.Pointer()
	}
	return 0
}

func (p *Pool) Get() any {
	if UseReal {
		p.once.Do(func() { p.real.New = p.New })
		return p.real.Get()
	}
	if Hook != nil {
		Hook("get")
	}
	p.register()
	Gets++
	n := len(p.items)
	idx := 0
	if Choose != nil {
		idx = Choose(n)
	}
	if n == 0 || idx >= n {
		if p.New == nil {
			return nil
		}
		return p.New()
	}
	// index 0 = top of the stack
	pos := n - 1 - idx
	x := p.items[pos]
	p.items = append(p.items[:pos], p.items[pos+1:]...)
	if Monitor {
		if l, ok := mapLen(x); ok && l != 0 {
			Violations = append(Violations, fmt.Sprintf("pool: Get returned a map with %d entries (written while pooled)", l))
		}
	}
	return x
}

func (p *Pool) Put(x any) {
	if UseReal {
		p.once.Do(func() { p.real.New = p.New })
		p.real.Put(x)
		return
	}
	if Hook != nil {
		Hook("put")
	}
	p.register()
	Puts++
	if Monitor {
		if l, ok := mapLen(x); ok && l != 0 {
			Violations = append(Violations, fmt.Sprintf("pool: Put of a map with %d entries", l))
		}
		id := ident(x)
		for _, y := range p.items {
			if id != 0 && ident(y) == id {
				Violations = append(Violations, "pool: the same map was Put twice without a Get in between")
			}
		}
	}
	p.items = append(p.items, x)
}
