package peg

// AssignArgs gives every code block the labels of its scope: the reference
// reading of "each code block receives exactly the labels in its scope".
// A scope is opened by a rule, a choice alternative, the expression under a
// label, & and !, ?, * and +, and a recovery operator; sequences, groups and
// actions do not open one. A block receives the labels of its own innermost
// scope that precede it textually (an action follows its expression), in
// order of first appearance.
func AssignArgs(g *Grammar) {
	for _, r := range g.Rules {
		sc := &[]string{}
		assign(r.Expr, sc)
	}
}

func addLabel(sc *[]string, l string) {
	for _, x := range *sc {
		if x == l {
			return
		}
	}
	*sc = append(*sc, l)
}

func assign(e *Expr, sc *[]string) {
	switch e.K {
	case KAction:
		assign(e.Kids[0], sc)
		e.Args = append([]string(nil), *sc...)
	case KAndCode, KNotCode, KState:
		e.Args = append([]string(nil), *sc...)
	case KLabel:
		addLabel(sc, e.Name)
		assign(e.Kids[0], &[]string{})
	case KSeq:
		for _, k := range e.Kids {
			assign(k, sc)
		}
	case KChoice:
		for _, k := range e.Kids {
			assign(k, &[]string{})
		}
	case KAnd, KNot, KOpt, KStar, KPlus:
		assign(e.Kids[0], &[]string{})
	case KRecover:
		inner := &[]string{}
		assign(e.Kids[0], inner)
		assign(e.Kids[1], inner)
	}
}

// Renumber gives code blocks the ids base, base+1, ... in walk order.
func Renumber(g *Grammar, base int) int {
	id := base
	for _, r := range g.Rules {
		r.Expr.Walk(func(e *Expr) {
			switch e.K {
			case KAction, KAndCode, KNotCode, KState:
				e.ID = id
				id++
			}
		})
	}
	return id
}

// SameScopeDup reports whether some label name is bound twice in one scope of
// e (such a grammar is outside pigeon's input domain: labels of one scope
// become parameters of one method).
func SameScopeDup(e *Expr) bool {
	dup := false
	var walk func(e *Expr, sc map[string]bool)
	walk = func(e *Expr, sc map[string]bool) {
		switch e.K {
		case KAction:
			walk(e.Kids[0], sc)
		case KLabel:
			if sc[e.Name] {
				dup = true
			}
			sc[e.Name] = true
			walk(e.Kids[0], map[string]bool{})
		case KSeq:
			for _, k := range e.Kids {
				walk(k, sc)
			}
		case KChoice:
			for _, k := range e.Kids {
				walk(k, map[string]bool{})
			}
		case KAnd, KNot, KOpt, KStar, KPlus:
			walk(e.Kids[0], map[string]bool{})
		case KRecover:
			inner := map[string]bool{}
			walk(e.Kids[0], inner)
			walk(e.Kids[1], inner)
		}
	}
	walk(e, map[string]bool{})
	return dup
}
