package peg

// AssignArgs gives every code block the labels of its scope: the reference
// reading of "each code block receives exactly the labels in its scope".
// A scope is opened by a rule, a choice alternative, the expression under a
// label, & and !, ?, * and +, and a recovery operator; sequences, groups and
// actions do not open one. A block receives the labels of its own innermost
// scope that precede it textually (an action follows its expression), in
// order of first appearance.
func AssignArgs(g *Grammar) {
	for _, r := range g.Rules {
		sc := &[]string{}
		assign(r.Expr, sc)
	}
}

func addLabel(sc *[]string, l string) {
	for _, x := range *sc {
		if x == l {
			return
		}
	}
	*sc = append(*sc, l)
}

func assign(e *Expr, sc *[]string) {
	switch e.K {
	case KAction:
		assign(e.Kids[0], sc)
		e.Args = append([]string(nil), *sc...)
	case KAndCode, KNotCode, KState:
		e.Args = append([]string(nil), *sc...)
	case KLabel:
		addLabel(sc, e.Name)
		assign(e.Kids[0], &[]string{})
	case KSeq:
		for _, k := range e.Kids {
			assign(k, sc)
		}
	case KChoice:
		for _, k := range e.Kids {
			assign(k, &[]string{})
		}
	case KAnd, KNot, KOpt, KStar, KPlus:
		assign(e.Kids[0], &[]string{})
	case KRecover:
		inner := &[]string{}
		assign(e.Kids[0], inner)
		assign(e.Kids[1], inner)
	}
}

// Renumber gives code blocks the ids base, base+1, ... in walk order.
func Renumber(g *Grammar, base int) int {
	id := base
	for _, r := range g.Rules {
		r.Expr.Walk(func(e *Expr) {
			switch e.K {
			case KAction, KAndCode, KNotCode, KState:
				e.ID = id
				id++
			}
		})
	}
	return id
}
