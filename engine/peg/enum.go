package peg

import "sort"

// Alphabet describes a family of expressions for exhaustive enumeration.
type Alphabet struct {
	Leaves   []*Expr // terminals and other size-1 nodes (cloned on use)
	Unary    []Kind  // KOpt, KStar, KPlus, KAnd, KNot
	Seq      bool
	Choice   bool
	MaxArity int // 2 or 3
	// NestSame allows seq directly in seq / choice directly in choice.
	NestSame bool
	// NoStack forbids a unary operator directly on a unary operator.
	NoStack bool
	// Recover: label sets for recovery operators (binary nodes).
	Recover [][]string
}

// Enumerator memoises the expressions of each exact size.
type Enumerator struct {
	A    Alphabet
	memo map[int][]*Expr
}

func NewEnumerator(a Alphabet) *Enumerator {
	if a.MaxArity == 0 {
		a.MaxArity = 2
	}
	return &Enumerator{A: a, memo: map[int][]*Expr{}}
}

// Size returns all expressions with exactly n nodes, simplest-first in a
// deterministic order. The returned expressions share sub-trees and must be
// treated as read-only (Clone before mutating).
func (en *Enumerator) Size(n int) []*Expr {
	if n <= 0 {
		return nil
	}
	if r, ok := en.memo[n]; ok {
		return r
	}
	var out []*Expr
	if n == 1 {
		out = append(out, en.A.Leaves...)
		en.memo[n] = out
		return out
	}
	for _, k := range en.A.Unary {
		for _, sub := range en.Size(n - 1) {
			if en.A.NoStack && isUnary(sub.K) {
				continue
			}
			out = append(out, &Expr{K: k, Kids: []*Expr{sub}})
		}
	}
	for _, k := range []Kind{KSeq, KChoice} {
		if (k == KSeq && !en.A.Seq) || (k == KChoice && !en.A.Choice) {
			continue
		}
		for ar := 2; ar <= en.A.MaxArity; ar++ {
			en.compose(k, n-1, ar, nil, &out)
		}
	}
	for _, labels := range en.A.Recover {
		for s1 := 1; s1 <= n-2; s1++ {
			for _, e1 := range en.Size(s1) {
				for _, e2 := range en.Size(n - 1 - s1) {
					if e2.K == KRecover {
						continue // the recovery expression slot is a choice expression
					}
					out = append(out, &Expr{K: KRecover, Kids: []*Expr{e1, e2}, FailLabels: labels})
				}
			}
		}
	}
	en.memo[n] = out
	return out
}

func isUnary(k Kind) bool {
	return k == KOpt || k == KStar || k == KPlus || k == KAnd || k == KNot
}

func (en *Enumerator) compose(k Kind, budget, slots int, acc []*Expr, out *[]*Expr) {
	if slots == 0 {
		if budget == 0 {
			*out = append(*out, &Expr{K: k, Kids: append([]*Expr(nil), acc...)})
		}
		return
	}
	for s := 1; s <= budget-(slots-1); s++ {
		for _, sub := range en.Size(s) {
			if !en.A.NestSame && sub.K == k {
				continue
			}
			en.compose(k, budget-s, slots-1, append(acc, sub), out)
		}
	}
}

// UpTo returns all expressions with at most n nodes.
func (en *Enumerator) UpTo(n int) []*Expr {
	var out []*Expr
	for i := 1; i <= n; i++ {
		out = append(out, en.Size(i)...)
	}
	return out
}

// Inputs returns all strings over the byte alphabet up to length l,
// shortest first.
func Inputs(alpha []string, l int) [][]byte {
	out := [][]byte{{}}
	prev := [][]byte{{}}
	for i := 0; i < l; i++ {
		var next [][]byte
		for _, p := range prev {
			for _, a := range alpha {
				s := append(append([]byte(nil), p...), a...)
				next = append(next, s)
			}
		}
		out = append(out, next...)
		prev = next
	}
	return out
}

// Nodes returns the nodes of e in pre-order.
func Nodes(e *Expr) []*Expr {
	var out []*Expr
	e.Walk(func(x *Expr) { out = append(out, x) })
	return out
}

// ReplaceNth returns a deep copy of e in which the n-th node (pre-order) is
// replaced by f(copy of that node).
func ReplaceNth(e *Expr, n int, f func(*Expr) *Expr) *Expr {
	i := -1
	var rec func(x *Expr) *Expr
	rec = func(x *Expr) *Expr {
		i++
		me := i
		c := *x
		c.Kids = make([]*Expr, len(x.Kids))
		for j, k := range x.Kids {
			c.Kids[j] = rec(k)
		}
		if x.Class != nil {
			cl := *x.Class
			c.Class = &cl
		}
		if me == n {
			return f(&c)
		}
		return &c
	}
	return rec(e)
}

// RefsOf returns the sorted rule names referenced by e.
func RefsOf(e *Expr) []string {
	set := map[string]bool{}
	e.Walk(func(x *Expr) {
		if x.K == KRef {
			set[x.Name] = true
		}
	})
	var out []string
	for k := range set {
		out = append(out, k)
	}
	sort.Strings(out)
	return out
}
