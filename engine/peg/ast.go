// Package peg is the reference model: an own AST for PEG grammars, a printer
// to pigeon syntax, enumerators, and a deliberately boring reference
// interpreter written from doc.go / Ford's PEG definition (not from
// static_code.go). It shares no code with pigeon.
package peg

import (
	"fmt"
	"strings"
)

type Kind int

const (
	KLit Kind = iota
	KClass
	KAny
	KSeq
	KChoice
	KOpt
	KStar
	KPlus
	KAnd
	KNot
	KLabel
	KAction
	KRef
	KAndCode
	KNotCode
	KState
	KThrow
	KRecover
)

var kindNames = [...]string{"lit", "class", "any", "seq", "choice", "opt", "star", "plus", "and", "not", "label", "action", "ref", "andcode", "notcode", "state", "throw", "recover"}

func (k Kind) String() string { return kindNames[k] }

// ClassItem is one element of a character class: a single char (Lo==Hi),
// a range, or a Unicode class name.
type ClassItem struct {
	Lo, Hi  rune
	Unicode string
}

type Class struct {
	Items      []ClassItem
	Inverted   bool
	IgnoreCase bool
}

type Expr struct {
	K          Kind
	Kids       []*Expr
	Val        string // KLit: the literal's value
	IgnoreCase bool   // KLit
	Class      *Class // KClass
	Name       string // KRef: rule; KLabel: label; KThrow: failure label
	FailLabels []string
	ID         int      // code block id
	Args       []string // labels the block body passes
	Src        string   // optional explicit spelling of a terminal
	Code       string   // optional explicit code block text (with braces)
}

type Rule struct {
	Name    string
	Display string
	Expr    *Expr
}

type Grammar struct {
	Rules []*Rule
}

// Effective returns the grammar the generated parser works with when a rule name is defined more
// than once (pigeon has no duplicate check): the rules table is keyed by name and filled in grammar
// order, so the LAST definition of a name is the rule; the start rule is the rule with the name
// of the first definition. Without duplicates g itself is returned.
func (g *Grammar) Effective() *Grammar {
	last := map[string]int{}
	dup := false
	for i, r := range g.Rules {
		if _, ok := last[r.Name]; ok {
			dup = true
		}
		last[r.Name] = i
	}
	if !dup {
		return g
	}
	out := &Grammar{}
	seen := map[string]bool{}
	for _, r := range g.Rules {
		if !seen[r.Name] {
			seen[r.Name] = true
			out.Rules = append(out.Rules, g.Rules[last[r.Name]])
		}
	}
	return out
}

func (g *Grammar) Rule(name string) *Rule {
	for _, r := range g.Rules {
		if r.Name == name {
			return r
		}
	}
	return nil
}

// Constructors.
func Lit(s string) *Expr            { return &Expr{K: KLit, Val: s} }
func LitI(s string) *Expr           { return &Expr{K: KLit, Val: s, IgnoreCase: true} }
func Any() *Expr                    { return &Expr{K: KAny} }
func Seq(k ...*Expr) *Expr          { return &Expr{K: KSeq, Kids: k} }
func Choice(k ...*Expr) *Expr       { return &Expr{K: KChoice, Kids: k} }
func Opt(e *Expr) *Expr             { return &Expr{K: KOpt, Kids: []*Expr{e}} }
func Star(e *Expr) *Expr            { return &Expr{K: KStar, Kids: []*Expr{e}} }
func Plus(e *Expr) *Expr            { return &Expr{K: KPlus, Kids: []*Expr{e}} }
func And(e *Expr) *Expr             { return &Expr{K: KAnd, Kids: []*Expr{e}} }
func Not(e *Expr) *Expr             { return &Expr{K: KNot, Kids: []*Expr{e}} }
func Label(n string, e *Expr) *Expr { return &Expr{K: KLabel, Name: n, Kids: []*Expr{e}} }
func Ref(n string) *Expr            { return &Expr{K: KRef, Name: n} }
func Throw(l string) *Expr          { return &Expr{K: KThrow, Name: l} }
func Recover(e, r *Expr, labels ...string) *Expr {
	return &Expr{K: KRecover, Kids: []*Expr{e, r}, FailLabels: labels}
}
func Action(id int, e *Expr, args ...string) *Expr {
	return &Expr{K: KAction, ID: id, Kids: []*Expr{e}, Args: args}
}
func AndCode(id int, args ...string) *Expr   { return &Expr{K: KAndCode, ID: id, Args: args} }
func NotCode(id int, args ...string) *Expr   { return &Expr{K: KNotCode, ID: id, Args: args} }
func StateCode(id int, args ...string) *Expr { return &Expr{K: KState, ID: id, Args: args} }

// Cls builds a class from a compact spec: items are single chars "a",
// ranges "a-c" or unicode classes "\pL" / "\p{Latin}".
func Cls(inverted, ignoreCase bool, items ...string) *Expr {
	c := &Class{Inverted: inverted, IgnoreCase: ignoreCase}
	for _, it := range items {
		rs := []rune(it)
		switch {
		case strings.HasPrefix(it, `\p{`):
			c.Items = append(c.Items, ClassItem{Unicode: it[3 : len(it)-1]})
		case strings.HasPrefix(it, `\p`):
			c.Items = append(c.Items, ClassItem{Unicode: it[2:]})
		case len(rs) == 3 && rs[1] == '-':
			c.Items = append(c.Items, ClassItem{Lo: rs[0], Hi: rs[2]})
		case len(rs) == 1:
			c.Items = append(c.Items, ClassItem{Lo: rs[0], Hi: rs[0]})
		default:
			panic("peg.Cls: bad item " + it)
		}
	}
	return &Expr{K: KClass, Class: c}
}

// Clone deep-copies an expression.
func (e *Expr) Clone() *Expr {
	if e == nil {
		return nil
	}
	c := *e
	c.Kids = make([]*Expr, len(e.Kids))
	for i, k := range e.Kids {
		c.Kids[i] = k.Clone()
	}
	if e.Class != nil {
		cl := *e.Class
		cl.Items = append([]ClassItem(nil), e.Class.Items...)
		c.Class = &cl
	}
	c.Args = append([]string(nil), e.Args...)
	c.FailLabels = append([]string(nil), e.FailLabels...)
	return &c
}

func (g *Grammar) Clone() *Grammar {
	c := &Grammar{}
	for _, r := range g.Rules {
		c.Rules = append(c.Rules, &Rule{Name: r.Name, Display: r.Display, Expr: r.Expr.Clone()})
	}
	return c
}

// Walk calls f for e and all descendants (pre-order).
func (e *Expr) Walk(f func(*Expr)) {
	f(e)
	for _, k := range e.Kids {
		k.Walk(f)
	}
}

// Size is the number of AST nodes.
func (e *Expr) Size() int {
	n := 0
	e.Walk(func(*Expr) { n++ })
	return n
}

// Blocks returns all code-block nodes of the grammar in order.
func (g *Grammar) Blocks() []*Expr {
	var out []*Expr
	for _, r := range g.Rules {
		r.Expr.Walk(func(e *Expr) {
			switch e.K {
			case KAction, KAndCode, KNotCode, KState:
				out = append(out, e)
			}
		})
	}
	return out
}

// Has reports whether any node of the grammar has one of the kinds.
func (g *Grammar) Has(kinds ...Kind) bool {
	found := false
	for _, r := range g.Rules {
		r.Expr.Walk(func(e *Expr) {
			for _, k := range kinds {
				if e.K == k {
					found = true
				}
			}
		})
	}
	return found
}

func (e *Expr) String() string {
	var b strings.Builder
	printExpr(&b, e, 0, nil)
	return b.String()
}

func (g *Grammar) String() string { return Print(g, nil) }

func (c ClassItem) String() string {
	if c.Unicode != "" {
		return fmt.Sprintf("\\p{%s}", c.Unicode)
	}
	if c.Lo == c.Hi {
		return string(c.Lo)
	}
	return fmt.Sprintf("%c-%c", c.Lo, c.Hi)
}
