package peg

import (
	"fmt"
	"strconv"
	"strings"
)

// PrintOpts selects the concrete spelling. The zero value (or nil) is the
// canonical spelling. Pos, when non-nil, receives the byte offset of the
// first token of every node (expressions and rules).
type PrintOpts struct {
	Package   string  // initializer package name; "-" = no initializer
	Recv      string  // receiver name used in block bodies (default "c")
	DefOp     string  // rule definition operator (default "<-")
	RuleSep   string  // text after each rule (default "\n")
	LastSep   *string // text after the last rule (default RuleSep)
	Lead      string  // text before the first rule / initializer
	Pos       map[*Expr]int
	CodePos   map[*Expr]int // offset of the '{' of a node's code block
	RulePos   map[*Rule]int
	DispPos   map[*Rule]int
	InitPos   *int
	AllParen  bool   // parenthesise every composite sub-expression
	Space     string // token separator inside expressions (default " ")
	OpSpace   string // separator between an operator and its operand ("" default)
	LitQuote  byte   // '"' (default), '\'' for single-rune literals, '`' raw
	LitEsc    int    // 0 plain, 1 \xHH, 2 \ooo, 3 \uHHHH, 4 \UHHHHHHHH for every rune of a literal
	ClsEsc    int    // same for class characters
	CodeStyle int    // spelling of code block bodies (see codeStyles)
	InitCode  string // initializer content override
	CodeBody  string // code block text override ("{...}") for every block
	InitSep   string // separator after the initializer block (default "\n\n")
	HeadSpace string // separator between rule name, display name, definition operator and expression (default " ")
}

// codeStyles are block bodies exercising the code block lexer: nested
// braces, braces inside string / raw string / rune literals and comments.
var codeStyles = []string{
	"",
	"{ if true { x := []int{1}; _ = x }; return nil, nil }",
	"{ s := \"}{\"; _ = s; return nil, nil }",
	"{ s := `}{`; _ = s; return nil, nil }",
	"{ r := '}'; q := '\\''; _, _ = r, q; return nil, nil }",
	"{ // } comment {\n return nil, nil }",
	"{ /* } { */ return nil, nil }",
	"{}",
	"{\n\treturn nil, nil\n}",
	"{ s := \"Größe ©µ± ←Ω€\"; _ = s /* é */; return nil, nil }",
}

// NCodeStyles is the number of code block spellings.
func NCodeStyles() int { return len(codeStyles) }

// Precedence levels (binding strength), lowest first.
const (
	lvRecover = iota
	lvChoice
	lvAction
	lvSeq
	lvLabel
	lvPrefix
	lvSuffix
	lvPrimary
)

func level(e *Expr) int {
	switch e.K {
	case KRecover:
		return lvRecover
	case KChoice:
		return lvChoice
	case KAction:
		return lvAction
	case KSeq:
		return lvSeq
	case KLabel, KThrow:
		return lvLabel
	case KAnd, KNot:
		return lvPrefix
	case KOpt, KStar, KPlus:
		return lvSuffix
	}
	return lvPrimary
}

// Print renders the grammar in pigeon syntax.
func Print(g *Grammar, o *PrintOpts) string {
	if o == nil {
		o = &PrintOpts{}
	}
	var b strings.Builder
	b.WriteString(o.Lead)
	pkg := o.Package
	if pkg == "" {
		pkg = "vgram"
	}
	if pkg != "-" {
		if o.InitPos != nil {
			*o.InitPos = b.Len()
		}
		isep := o.InitSep
		if isep == "" {
			isep = "\n\n"
		}
		if o.InitCode != "" {
			b.WriteString(o.InitCode + isep)
		} else {
			fmt.Fprintf(&b, "{\npackage %s\n}%s", pkg, isep)
		}
	}
	op := o.DefOp
	if op == "" {
		op = "<-"
	}
	sep := o.RuleSep
	if sep == "" {
		sep = "\n"
	}
	for i, r := range g.Rules {
		if o.RulePos != nil {
			o.RulePos[r] = b.Len()
		}
		hs := o.HeadSpace
		if hs == "" {
			hs = " "
		} else if hs == "\x00" {
			hs = ""
		}
		b.WriteString(r.Name)
		if r.Display != "" {
			b.WriteString(hs)
			if o.DispPos != nil {
				o.DispPos[r] = b.Len()
			}
			b.WriteString(strconv.Quote(r.Display))
		}
		b.WriteString(hs + op + hs)
		printExpr(&b, r.Expr, lvRecover, o)
		if i == len(g.Rules)-1 && o.LastSep != nil {
			b.WriteString(*o.LastSep)
		} else {
			b.WriteString(sep)
		}
	}
	return b.String()
}

func blockBody(e *Expr, o *PrintOpts) string {
	if e.Code != "" {
		return e.Code
	}
	if o != nil && o.CodeBody != "" {
		return o.CodeBody
	}
	if o != nil && o.CodeStyle > 0 && o.CodeStyle < len(codeStyles) {
		return codeStyles[o.CodeStyle]
	}
	recv := "c"
	if o != nil && o.Recv != "" {
		recv = o.Recv
	}
	helper := map[Kind]string{KAction: "vact", KAndCode: "vand", KNotCode: "vnot", KState: "vst"}[e.K]
	var b strings.Builder
	fmt.Fprintf(&b, "{ return %s(%s, %d", helper, recv, e.ID)
	for _, a := range e.Args {
		b.WriteString(", " + a)
	}
	b.WriteString(") }")
	return b.String()
}

func writeCode(b *strings.Builder, e *Expr, o *PrintOpts) {
	if o != nil && o.CodePos != nil {
		o.CodePos[e] = b.Len()
	}
	b.WriteString(blockBody(e, o))
}

func printExpr(b *strings.Builder, e *Expr, min int, o *PrintOpts) {
	if o != nil && o.AllParen && min > lvRecover {
		min = lvPrimary
	}
	sp := " "
	if o != nil && o.Space != "" {
		sp = o.Space
	}
	osp := ""
	if o != nil {
		osp = o.OpSpace
	}
	paren := level(e) < min
	if paren {
		b.WriteString("(" + osp)
	}
	if o != nil && o.Pos != nil {
		// position of the node = its first token. For composite nodes whose
		// first token belongs to a child this is the same offset.
		o.Pos[e] = b.Len()
	}
	switch e.K {
	case KRecover:
		// left-associative: a nested recover in the first slot needs no parens
		printExpr(b, e.Kids[0], lvRecover, o)
		b.WriteString(sp + "//{" + osp + strings.Join(e.FailLabels, osp+","+sp) + osp + "}" + sp)
		printExpr(b, e.Kids[1], lvChoice, o)
	case KChoice:
		for i, k := range e.Kids {
			if i > 0 {
				b.WriteString(sp + "/" + sp)
			}
			printExpr(b, k, lvAction, o)
		}
	case KAction:
		printExpr(b, e.Kids[0], lvSeq, o)
		b.WriteString(sp)
		writeCode(b, e, o)
	case KSeq:
		for i, k := range e.Kids {
			if i > 0 {
				b.WriteString(sp)
			}
			printExpr(b, k, lvLabel, o)
		}
	case KLabel:
		b.WriteString(e.Name + osp + ":" + osp)
		printExpr(b, e.Kids[0], lvPrefix, o)
	case KThrow:
		b.WriteString("%{" + e.Name + "}")
	case KAnd:
		b.WriteString("&" + osp)
		printExpr(b, e.Kids[0], lvSuffix, o)
	case KNot:
		b.WriteString("!" + osp)
		printExpr(b, e.Kids[0], lvSuffix, o)
	case KOpt:
		printExpr(b, e.Kids[0], lvPrimary, o)
		b.WriteString(osp + "?")
	case KStar:
		printExpr(b, e.Kids[0], lvPrimary, o)
		b.WriteString(osp + "*")
	case KPlus:
		printExpr(b, e.Kids[0], lvPrimary, o)
		b.WriteString(osp + "+")
	case KRef:
		b.WriteString(e.Name)
	case KAny:
		b.WriteString(".")
	case KLit:
		b.WriteString(LitSrc(e, o))
	case KClass:
		b.WriteString(classSrc(e, o))
	case KAndCode:
		b.WriteString("&" + osp)
		writeCode(b, e, o)
	case KNotCode:
		b.WriteString("!" + osp)
		writeCode(b, e, o)
	case KState:
		b.WriteString("#" + osp)
		writeCode(b, e, o)
	}
	if paren {
		b.WriteString(osp + ")")
	}
}

// LitSrc is the source spelling of a literal.
func LitSrc(e *Expr, o *PrintOpts) string {
	if e.Src != "" {
		return e.Src
	}
	s := strconv.Quote(e.Val)
	if o != nil && o.LitEsc > 0 {
		var sb strings.Builder
		sb.WriteString(`"`)
		for _, r := range e.Val {
			sb.WriteString(escRune(r, o.LitEsc))
		}
		sb.WriteString(`"`)
		s = sb.String()
	}
	if o != nil && o.LitEsc == 0 {
		switch o.LitQuote {
		case '\'':
			if rs := []rune(e.Val); len(rs) == 1 && rs[0] != '\'' && rs[0] != '\\' && strconv.IsPrint(rs[0]) {
				s = "'" + e.Val + "'"
			}
		case '`':
			if !strings.ContainsAny(e.Val, "`") && isPrintable(e.Val) {
				s = "`" + e.Val + "`"
			}
		}
	}
	if e.IgnoreCase {
		s += "i"
	}
	return s
}

func isPrintable(s string) bool {
	for _, r := range s {
		if !strconv.IsPrint(r) && r != '\n' {
			return false
		}
	}
	return true
}

func classRune(r rune, first bool) string {
	switch {
	case r == ']':
		return `\]`
	case r == '\\':
		return `\\`
	case r == '-':
		return `\x2d`
	case r == '^' && first:
		return `\x5e`
	case r == '\n':
		return `\n`
	case r == '\t':
		return `\t`
	case r == '\r':
		return `\r`
	case r < 0x20 || r == 0x7f:
		return fmt.Sprintf(`\x%02x`, r)
	case r == 0xFFFD:
		return `�`
	case !strconv.IsPrint(r) && r <= 0xFFFF:
		return fmt.Sprintf(`\u%04x`, r)
	case !strconv.IsPrint(r):
		return fmt.Sprintf(`\U%08x`, r)
	}
	return string(r)
}

// escRune spells a rune with the given escape form (falling back to a
// form that can express it).
func escRune(r rune, form int) string {
	switch {
	case form == 1 && r < 0x100 && r < 0x80:
		return fmt.Sprintf(`\x%02x`, r)
	case form == 2 && r < 0x80:
		return fmt.Sprintf(`\%03o`, r)
	case form == 3 && r <= 0xFFFF:
		return fmt.Sprintf(`\u%04X`, r)
	case form == 4:
		return fmt.Sprintf(`\U%08x`, r)
	case r <= 0xFFFF:
		return fmt.Sprintf(`\u%04x`, r)
	}
	return fmt.Sprintf(`\U%08x`, r)
}

// ClassSrc is the source spelling of a character class; it is also the
// text pigeon reports for the class in "expected" lists.
func ClassSrc(e *Expr) string { return classSrc(e, nil) }

func classSrc(e *Expr, o *PrintOpts) string {
	if e.Src != "" {
		return e.Src
	}
	c := e.Class
	cr := classRune
	if o != nil && o.ClsEsc > 0 {
		cr = func(r rune, first bool) string { return escRune(r, o.ClsEsc) }
	}
	var b strings.Builder
	b.WriteString("[")
	if c.Inverted {
		b.WriteString("^")
	}
	for i, it := range c.Items {
		first := i == 0 && !c.Inverted
		switch {
		case it.Unicode != "":
			if len(it.Unicode) == 1 && strings.Contains("LMNCPZS", it.Unicode) {
				b.WriteString(`\p` + it.Unicode)
			} else {
				b.WriteString(`\p{` + it.Unicode + `}`)
			}
		case it.Lo == it.Hi:
			b.WriteString(cr(it.Lo, first))
		default:
			b.WriteString(cr(it.Lo, first) + "-" + cr(it.Hi, false))
		}
	}
	b.WriteString("]")
	if c.IgnoreCase {
		b.WriteString("i")
	}
	return b.String()
}

// BlockText is the code block text the printer writes for e under o.
func BlockText(e *Expr, o *PrintOpts) string { return blockBody(e, o) }

// ClassText is the class text the printer writes for e under o.
func ClassText(e *Expr, o *PrintOpts) string { return classSrc(e, o) }
