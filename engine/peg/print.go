package peg

import (
	"fmt"
	"strconv"
	"strings"
)

// PrintOpts selects the concrete spelling. The zero value (or nil) is the
// canonical spelling. Pos, when non-nil, receives the byte offset of the
// first token of every node (expressions and rules).
type PrintOpts struct {
	Package  string // initializer package name; "-" = no initializer
	Recv     string // receiver name used in block bodies (default "c")
	DefOp    string // rule definition operator (default "<-")
	RuleSep  string // text after each rule (default "\n")
	Pos      map[*Expr]int
	RulePos  map[*Rule]int
	AllParen bool   // parenthesise every composite sub-expression
	Space    string // token separator inside expressions (default " ")
	LitQuote byte   // '"' (default), '\'' for single-rune literals, '`' raw
}

// Precedence levels (binding strength), lowest first.
const (
	lvRecover = iota
	lvChoice
	lvAction
	lvSeq
	lvLabel
	lvPrefix
	lvSuffix
	lvPrimary
)

func level(e *Expr) int {
	switch e.K {
	case KRecover:
		return lvRecover
	case KChoice:
		return lvChoice
	case KAction:
		return lvAction
	case KSeq:
		return lvSeq
	case KLabel, KThrow:
		return lvLabel
	case KAnd, KNot:
		return lvPrefix
	case KOpt, KStar, KPlus:
		return lvSuffix
	}
	return lvPrimary
}

// Print renders the grammar in pigeon syntax.
func Print(g *Grammar, o *PrintOpts) string {
	if o == nil {
		o = &PrintOpts{}
	}
	var b strings.Builder
	pkg := o.Package
	if pkg == "" {
		pkg = "vgram"
	}
	if pkg != "-" {
		fmt.Fprintf(&b, "{\npackage %s\n}\n\n", pkg)
	}
	op := o.DefOp
	if op == "" {
		op = "<-"
	}
	sep := o.RuleSep
	if sep == "" {
		sep = "\n"
	}
	for _, r := range g.Rules {
		if o.RulePos != nil {
			o.RulePos[r] = b.Len()
		}
		b.WriteString(r.Name)
		if r.Display != "" {
			b.WriteString(" ")
			b.WriteString(strconv.Quote(r.Display))
		}
		b.WriteString(" " + op + " ")
		printExpr(&b, r.Expr, lvRecover, o)
		b.WriteString(sep)
	}
	return b.String()
}

func blockBody(e *Expr, o *PrintOpts) string {
	recv := "c"
	if o != nil && o.Recv != "" {
		recv = o.Recv
	}
	helper := map[Kind]string{KAction: "vact", KAndCode: "vand", KNotCode: "vnot", KState: "vst"}[e.K]
	var b strings.Builder
	fmt.Fprintf(&b, "{ return %s(%s, %d", helper, recv, e.ID)
	for _, a := range e.Args {
		b.WriteString(", " + a)
	}
	b.WriteString(") }")
	return b.String()
}

func printExpr(b *strings.Builder, e *Expr, min int, o *PrintOpts) {
	if o != nil && o.AllParen && min > lvRecover {
		min = lvPrimary
	}
	sp := " "
	if o != nil && o.Space != "" {
		sp = o.Space
	}
	paren := level(e) < min
	if paren {
		b.WriteString("(")
	}
	if o != nil && o.Pos != nil {
		// position of the node = its first token. For composite nodes whose
		// first token belongs to a child this is the same offset.
		o.Pos[e] = b.Len()
	}
	switch e.K {
	case KRecover:
		// left-associative: a nested recover in the first slot needs no parens
		printExpr(b, e.Kids[0], lvRecover, o)
		b.WriteString(sp + "//{" + strings.Join(e.FailLabels, ", ") + "}" + sp)
		printExpr(b, e.Kids[1], lvChoice, o)
	case KChoice:
		for i, k := range e.Kids {
			if i > 0 {
				b.WriteString(sp + "/" + sp)
			}
			printExpr(b, k, lvAction, o)
		}
	case KAction:
		printExpr(b, e.Kids[0], lvSeq, o)
		b.WriteString(sp + blockBody(e, o))
	case KSeq:
		for i, k := range e.Kids {
			if i > 0 {
				b.WriteString(sp)
			}
			printExpr(b, k, lvLabel, o)
		}
	case KLabel:
		b.WriteString(e.Name + ":")
		printExpr(b, e.Kids[0], lvPrefix, o)
	case KThrow:
		b.WriteString("%{" + e.Name + "}")
	case KAnd:
		b.WriteString("&")
		printExpr(b, e.Kids[0], lvSuffix, o)
	case KNot:
		b.WriteString("!")
		printExpr(b, e.Kids[0], lvSuffix, o)
	case KOpt:
		printExpr(b, e.Kids[0], lvPrimary, o)
		b.WriteString("?")
	case KStar:
		printExpr(b, e.Kids[0], lvPrimary, o)
		b.WriteString("*")
	case KPlus:
		printExpr(b, e.Kids[0], lvPrimary, o)
		b.WriteString("+")
	case KRef:
		b.WriteString(e.Name)
	case KAny:
		b.WriteString(".")
	case KLit:
		b.WriteString(LitSrc(e, o))
	case KClass:
		b.WriteString(ClassSrc(e))
	case KAndCode:
		b.WriteString("&" + blockBody(e, o))
	case KNotCode:
		b.WriteString("!" + blockBody(e, o))
	case KState:
		b.WriteString("#" + blockBody(e, o))
	}
	if paren {
		b.WriteString(")")
	}
}

// LitSrc is the source spelling of a literal.
func LitSrc(e *Expr, o *PrintOpts) string {
	if e.Src != "" {
		return e.Src
	}
	s := strconv.Quote(e.Val)
	if o != nil {
		switch o.LitQuote {
		case '\'':
			if rs := []rune(e.Val); len(rs) == 1 && rs[0] != '\'' && rs[0] != '\\' && strconv.IsPrint(rs[0]) {
				s = "'" + e.Val + "'"
			}
		case '`':
			if !strings.ContainsAny(e.Val, "`") && isPrintable(e.Val) {
				s = "`" + e.Val + "`"
			}
		}
	}
	if e.IgnoreCase {
		s += "i"
	}
	return s
}

func isPrintable(s string) bool {
	for _, r := range s {
		if !strconv.IsPrint(r) && r != '\n' {
			return false
		}
	}
	return true
}

func classRune(r rune, first bool) string {
	switch {
	case r == ']':
		return `\]`
	case r == '\\':
		return `\\`
	case r == '-':
		return `\x2d`
	case r == '^' && first:
		return `\x5e`
	case r == '\n':
		return `\n`
	case r == '\t':
		return `\t`
	case r == '\r':
		return `\r`
	case r < 0x20 || r == 0x7f:
		return fmt.Sprintf(`\x%02x`, r)
	case r == 0xFFFD:
		return `�`
	case !strconv.IsPrint(r) && r <= 0xFFFF:
		return fmt.Sprintf(`\u%04x`, r)
	case !strconv.IsPrint(r):
		return fmt.Sprintf(`\U%08x`, r)
	}
	return string(r)
}

// ClassSrc is the source spelling of a character class; it is also the
// text pigeon reports for the class in "expected" lists.
func ClassSrc(e *Expr) string {
	if e.Src != "" {
		return e.Src
	}
	c := e.Class
	var b strings.Builder
	b.WriteString("[")
	if c.Inverted {
		b.WriteString("^")
	}
	for i, it := range c.Items {
		first := i == 0 && !c.Inverted
		switch {
		case it.Unicode != "":
			if len(it.Unicode) == 1 && strings.Contains("LMNCPZS", it.Unicode) {
				b.WriteString(`\p` + it.Unicode)
			} else {
				b.WriteString(`\p{` + it.Unicode + `}`)
			}
		case it.Lo == it.Hi:
			b.WriteString(classRune(it.Lo, first))
		default:
			b.WriteString(classRune(it.Lo, first) + "-" + classRune(it.Hi, false))
		}
	}
	b.WriteString("]")
	if c.IgnoreCase {
		b.WriteString("i")
	}
	return b.String()
}
