package peg

import (
	"fmt"
	"sort"
	"strconv"
	"strings"
	"unicode"

	"verif/engine/rtapi"
)

// Decode is an independent RFC 3629 decoder: it returns the rune at b[0:],
// its width, and whether it is a valid encoding. Invalid bytes decode as
// U+FFFD, width 1. Empty input: (U+FFFD, 0, false).
func Decode(b []byte) (rune, int, bool) {
	if len(b) == 0 {
		return 0xFFFD, 0, false
	}
	c := b[0]
	switch {
	case c < 0x80:
		return rune(c), 1, true
	case c < 0xC2:
		return 0xFFFD, 1, false // continuation byte or overlong lead C0/C1
	case c < 0xE0:
		if len(b) >= 2 && b[1]&0xC0 == 0x80 {
			return rune(c&0x1F)<<6 | rune(b[1]&0x3F), 2, true
		}
	case c < 0xF0:
		if len(b) >= 3 && b[1]&0xC0 == 0x80 && b[2]&0xC0 == 0x80 {
			r := rune(c&0x0F)<<12 | rune(b[1]&0x3F)<<6 | rune(b[2]&0x3F)
			if r >= 0x800 && (r < 0xD800 || r > 0xDFFF) {
				return r, 3, true
			}
		}
	case c < 0xF5:
		if len(b) >= 4 && b[1]&0xC0 == 0x80 && b[2]&0xC0 == 0x80 && b[3]&0xC0 == 0x80 {
			r := rune(c&0x07)<<18 | rune(b[1]&0x3F)<<12 | rune(b[2]&0x3F)<<6 | rune(b[3]&0x3F)
			if r >= 0x10000 && r <= 0x10FFFF {
				return r, 4, true
			}
		}
	}
	return 0xFFFD, 1, false
}

// PosTable maps byte offsets to (line, col) as documented: offset counts
// bytes, line counts newlines (a newline belongs to the line it starts,
// col 0), col counts decoded units since the last newline; EOF counts as
// one more unit.
type PosTable struct {
	Line, Col []int
}

func NewPosTable(in []byte) *PosTable {
	t := &PosTable{Line: make([]int, len(in)+1), Col: make([]int, len(in)+1)}
	line, col := 1, 0
	o := 0
	for {
		col++
		if o < len(in) && in[o] == '\n' {
			line++
			col = 0
		}
		t.Line[o], t.Col[o] = line, col
		if o >= len(in) {
			break
		}
		_, w, _ := Decode(in[o:])
		// offsets inside a multi-byte rune are never parser positions; give
		// them the position of the rune start for robustness.
		for k := 1; k < w; k++ {
			t.Line[o+k], t.Col[o+k] = line, col
		}
		o += w
	}
	return t
}

func (t *PosTable) At(off int) [3]int { return [3]int{t.Line[off], t.Col[off], off} }

// Options of one reference evaluation.
type Options struct {
	Filename     string
	Entrypoint   *string
	AllowInvalid bool
	NoRecover    bool
	InitState    bool
	HasState     bool // the generated parser has a state store at all
	MaxEval      int  // reference evaluation budget (0: 100000)
	// DynamicRecoveryScope: code blocks inside a recovery expression read
	// labels from the scope instance of the throw site (what the runtime
	// does) instead of the scope instance in which the recovery operator
	// was entered.
	DynamicRecoveryScope bool
	// LeftRec enables the denotation of left-recursive rules (what
	// -support-left-recursion promises): the first rule of a first-call
	// cycle entered at a position is evaluated by seed growing - first with
	// the recursive reference failing, then repeatedly with the reference
	// yielding the previous result as long as the match gets longer - which
	// for A <- A a1 / ... / b1 / ... is exactly (b1/...) followed by greedily
	// repeated (a1/...), left-nested.
	LeftRec bool
	// LeaderHeads: only these rules grow a seed (nil: the first rule of a
	// cycle entered at a position does).
	LeaderHeads map[string]bool
	// Inlined: rules that -optimize-grammar replaces by a copy wherever they are referenced
	// (InlinableRules). Such a rule does not exist in the generated parser except as an
	// entrypoint, so "the rule in which an error arose" is the enclosing rule.
	Inlined map[string]bool
	// Quirks switches on models of known defects of the implementation; they
	// are only ever used to decide whether an observed disagreement is
	// exactly the listed known finding (never to excuse anything else).
	Quirks map[string]bool
}

// Quirk names.
const (
	// QPredStale: predicate and state blocks see c.pos / c.text as left by
	// the most recently run action block instead of the current position
	// and an empty text.
	QPredStale = "pred-stale-cur"
	// QMaxFailOrigin: a farthest failure at offset 0 is always reported at
	// 1:1 (the initial value of the failure position) instead of the
	// line:col of offset 0, which differ when the input starts with a newline.
	QMaxFailOrigin = "maxfail-origin"
	// QLitFFFDEOF: a literal rune U+FFFD "matches" the end of input
	// (consuming nothing), because the runtime's current rune is U+FFFD at
	// EOF and parseLitMatcher has no EOF test.
	QLitFFFDEOF = "lit-fffd-eof"
	// QClassUnicodeLower: in a case-insensitive class a Unicode class item is
	// tested against the lower-cased input rune only, so [\p{Lu}]i matches
	// no letter at all.
	QClassUnicodeLower = "class-unicode-lower"
	// QMemo models the runtime's packrat table keyed by (expression node,
	// offset): a hit returns the cached (ok, end, value) without running
	// blocks and without re-binding a label in the current scope.
	QMemo = "memo-model"
	// QMemoRebind: like QMemo but a hit on a labelled expression re-binds
	// the label (used to tell D13 from D8).
	QMemoRebind = "memo-model-rebind"
	// QLeaderReuse: in a parser generated with -support-left-recursion the FINISHED result of a
	// leader stays in the rule table at its start offset whatever the Memoize option says, so a
	// second evaluation of that rule at that offset (after backtracking) is answered from the
	// table: its blocks do not run again, its state changes are not made again, the terminal
	// failures inside it are not recorded again.
	QLeaderReuse = "lr-leader-reuse"
	// QRecoverNoScope (defect D40, repaired): the runtime opened no variable set for a recovery
	// operator - labels bound in its guarded expression overwrote equally named labels of the
	// enclosing scope - and ran a recovery expression with the variable set of the THROW SITE
	// instead of the one of its operator. Kept as a model so that the repair can be reverted and
	// the checks shown to see it.
	QRecoverNoScope = "recover-no-scope"
)

type memoKey struct {
	e   *Expr
	pos int
}

type memoVal struct {
	ok  bool
	end int
	val any
}

type store struct {
	hasS, hasL bool
	S, L       string
}

func (s store) canon() string {
	var parts []string
	if s.hasL {
		parts = append(parts, "l=L"+s.L)
	}
	if s.hasS {
		parts = append(parts, "s=S"+strconv.Quote(s.S))
	}
	return "{" + strings.Join(parts, ",") + "}"
}

// FailRec is one recorded terminal attempt relevant for error reporting.
type FailRec struct {
	Off  int
	Want string
}

// ErrRec is one error the reference expects in the list.
type ErrRec struct {
	Off         int    // position offset
	Rule        string // display name or name; "" if outside any rule
	Inner       string
	Kind        string // script | panic | nomatch | entrypoint | norule | encoding
	Seq         int
	Expected    []string
	PosOverride *[3]int
}

// Outcome kinds.
const (
	OResult  = "result"
	ODiverge = "diverge" // structural non-termination detected
	OBudget  = "budget"  // reference evaluation budget exceeded
	OEscaped = "escaped" // scripted panic escaped (NoRecover)
)

// Result is what the reference expects of one Parse call.
type Result struct {
	Outcome  string
	Matched  bool
	End      int
	Val      string // canonical
	Flat     string // rtapi.Flat of the value
	Errs     []ErrRec
	Log      []rtapi.Event
	Evals    int
	Panic    string // canonical panic value for OEscaped
	Advanced []int  // offsets advanced onto (sorted)
	// Backtracked: some alternative/iteration failed after consuming input.
	Backtracked bool
	// MaxFailOff/Expected describe the farthest failure (valid when !Matched).
	// Reentry: a rule was re-entered at an offset where it was active.
	Reentry string
	// DivergeMemo: the run diverges in a repetition whose body matched the
	// empty string, at a place where the runtime's expression table is in use
	// under Memoize (finding D11).
	DivergeMemo bool
	Final       string // final state store (canonical)
	Caught      int    // throws for which a listed handler was run
}

type handler struct {
	labels []string
	expr   *Expr
	env    map[string]any
}

type refPanic struct {
	kind string // diverge | budget | script
	val  any
	off  int
	rule string
	why  string
}

type Interp struct {
	G      *Grammar
	In     []byte
	Script map[int]*rtapi.Block
	O      Options
	Pos    *PosTable

	st          store
	global      store
	log         []rtapi.Event
	errs        []ErrRec
	errSeq      int
	fails       []FailRec
	invert      bool
	rstack      []*Rule
	handlers    []handler
	active      map[string]int
	activePlain map[string]int
	evals       int
	advanced    map[int]bool
	backtr      bool
	reentry     string
	curText     string // what c.text / c.pos hold in the implementation (QPredStale)
	curPos      [3]int
	caught      int
	seeds       map[string]memoVal
	growing     map[string]int // SCC id -> number of heads growing, per position key
	an          *Analysis
	memo        map[memoKey]memoVal
	ruleMemo    map[string]memoVal
	divergeMemo bool
	// leaderMemo: finished results of left-recursive leaders (memo model)
	leaderMemo map[string]memoVal
}

func (ip *Interp) ruleName() string {
	if len(ip.rstack) == 0 {
		return ""
	}
	i := len(ip.rstack) - 1
	for i > 0 && ip.O.Inlined[ip.rstack[i].Name] {
		i--
	}
	r := ip.rstack[i]
	if r.Display != "" {
		// pigeon keeps the display name as written, quotes included
		return strconv.Quote(r.Display)
	}
	return r.Name
}

// Run evaluates the grammar on the input.
func Run(g *Grammar, in []byte, script map[int]*rtapi.Block, o Options) (res *Result) {
	g = g.Effective()
	ip := &Interp{G: g, In: in, Script: script, O: o, Pos: NewPosTable(in), active: map[string]int{}, advanced: map[int]bool{}}
	if o.InitState && o.HasState {
		ip.st = store{hasS: true, hasL: true}
	}
	if ip.O.MaxEval == 0 {
		ip.O.MaxEval = 100000
	}
	res = &Result{Outcome: OResult}
	finish := func() {
		res.Errs = ip.errs
		res.Log = ip.log
		res.Evals = ip.evals
		res.Backtracked = ip.backtr
		res.Reentry = ip.reentry
		res.DivergeMemo = ip.divergeMemo
		res.Final = ip.st.canon()
		res.Caught = ip.caught
		for o := range ip.advanced {
			res.Advanced = append(res.Advanced, o)
		}
		sort.Ints(res.Advanced)
	}
	defer func() {
		if e := recover(); e != nil {
			rp, ok := e.(*refPanic)
			if !ok {
				panic(e)
			}
			switch rp.kind {
			case "diverge":
				res.Outcome = ODiverge
			case "budget":
				res.Outcome = OBudget
			case "script":
				if o.NoRecover {
					res.Outcome = OEscaped
					res.Panic = rtapi.Canon(rp.val)
				} else {
					res.Matched = false
					res.Val = "nil"
					er := ErrRec{Off: rp.off, Rule: rp.rule, Kind: "panic"}
					switch v := rp.val.(type) {
					case *rtapi.ScriptErr:
						er.Inner, er.Seq = v.Msg, v.Seq
					default:
						er.Inner = fmt.Sprint(v)
					}
					ip.errs = append(ip.errs, er)
				}
			}
			finish()
		}
	}()
	if len(g.Rules) == 0 {
		ip.errs = append(ip.errs, ErrRec{Off: -1, Kind: "norule", Inner: "grammar has no rule"})
		res.Val = "nil"
		finish()
		return res
	}
	start := g.Rules[0]
	if o.Entrypoint != nil && *o.Entrypoint != "" {
		start = g.Rule(*o.Entrypoint)
		if start == nil {
			ip.errs = append(ip.errs, ErrRec{Off: -1, Kind: "entrypoint", Inner: "invalid entrypoint"})
			res.Val = "nil"
			finish()
			return res
		}
	}
	ip.advance(0)
	ok, end, val := ip.evalRule(start, 0)
	res.Matched, res.End = ok, end
	if ok {
		res.Val = rtapi.Canon(val)
		res.Flat = rtapi.Flat(val)
	} else {
		res.Val = "nil"
		if len(ip.errs) == 0 {
			off, exp := ip.Farthest()
			er := ErrRec{Off: off, Kind: "nomatch", Inner: "no match found, expected: " + listJoin(exp), Expected: exp}
			if off == 0 && o.Quirks[QMaxFailOrigin] {
				er.PosOverride = &[3]int{1, 1, 0}
			}
			if len(ip.fails) == 0 {
				// no terminal failed at all (e.g. only code predicates or an empty
				// class of alternatives): the property defines no position; pigeon
				// reports the start of the input as 1:1 (0)
				er.PosOverride = &[3]int{1, 1, 0}
			}
			ip.errs = append(ip.errs, er)
		}
	}
	finish()
	return res
}

func listJoin(list []string) string {
	switch len(list) {
	case 0:
		return ""
	case 1:
		return list[0]
	}
	return strings.Join(list[:len(list)-1], ", ") + " or " + list[len(list)-1]
}

// Farthest computes the farthest failure offset and the expected set.
func (ip *Interp) Farthest() (int, []string) {
	max := 0
	for _, f := range ip.fails {
		if f.Off > max {
			max = f.Off
		}
	}
	set := map[string]bool{}
	for _, f := range ip.fails {
		if f.Off == max {
			set[f.Want] = true
		}
	}
	eof := set["!."]
	delete(set, "!.")
	var exp []string
	for k := range set {
		exp = append(exp, k)
	}
	sort.Strings(exp)
	if eof {
		exp = append(exp, "EOF")
	}
	return max, exp
}

func (ip *Interp) advance(off int) {
	ip.advanced[off] = true
	if off < len(ip.In) {
		if _, _, valid := Decode(ip.In[off:]); !valid && !ip.O.AllowInvalid {
			ip.errs = append(ip.errs, ErrRec{Off: off, Rule: ip.ruleName(), Kind: "encoding", Inner: "invalid encoding"})
		}
	}
}

// record notes a terminal attempt for error reporting: failures under even
// polarity, successes (prefixed with !) under odd polarity.
func (ip *Interp) record(matched bool, off int, want string) {
	if matched == ip.invert {
		if ip.invert {
			want = "!" + want
		}
		ip.fails = append(ip.fails, FailRec{off, want})
	}
}

func (ip *Interp) evalRule(r *Rule, pos int) (bool, int, any) {
	key := r.Name + "@" + strconv.Itoa(pos)
	useMemo := ip.O.Quirks[QMemo] || ip.O.Quirks[QMemoRebind]
	if ip.O.LeftRec && ip.an == nil {
		ip.an = Analyze(ip.G)
		ip.seeds = map[string]memoVal{}
		ip.growing = map[string]int{}
	}
	// the runtime's rule table: rules outside left-recursive cycles are answered from it
	// (parseRuleMemoize); a rule of a cycle is not, except that the FINISHED result of a
	// leader stays in the table at its start offset
	lrRule := ip.O.LeftRec && ip.an.LeftRec[r.Name]
	leaderReuse := useMemo || ip.O.Quirks[QLeaderReuse]
	if leaderReuse && lrRule {
		if ip.leaderMemo == nil {
			ip.leaderMemo = map[string]memoVal{}
		}
		if m, ok := ip.leaderMemo[key]; ok {
			if _, growing := ip.seeds[key]; !growing {
				return m.ok, m.end, m.val
			}
		}
	}
	if useMemo {
		if ip.ruleMemo == nil {
			ip.ruleMemo = map[string]memoVal{}
		}
		if m, ok := ip.ruleMemo[key]; ok && !lrRule {
			return m.ok, m.end, m.val
		}
	}
	if ip.O.LeftRec {
		if sd, ok := ip.seeds[key]; ok {
			return sd.ok, sd.end, sd.val
		}
		if lrRule && ip.isHead(r, pos) {
			ok, end, val := ip.grow(r, pos, key)
			if leaderReuse {
				ip.leaderMemo[key] = memoVal{ok, end, val}
			}
			return ok, end, val
		}
	}
	// a rule entered again at an offset where it is already active: C07's subject (reported as
	// Reentry). It is non-termination only if the evaluation context is the same too - with
	// throw / recover the handlers in force are part of it (A <- %{l} entered again from a
	// recovery expression runs under another handler stack and may well return)
	ctxKey := key
	if len(ip.handlers) > 0 {
		var sb strings.Builder
		sb.WriteString(key)
		for _, h := range ip.handlers {
			fmt.Fprintf(&sb, "|%p", h.expr)
		}
		ctxKey = sb.String()
	}
	if ip.activePlain == nil {
		ip.activePlain = map[string]int{}
	}
	if !(ip.O.LeftRec && ip.an.LeftRec[r.Name] && !ip.isHeadFree(r, pos)) {
		// (a non-head rule of a cycle may be re-entered while the head's seed
		// bounds the recursion)
		if ip.activePlain[key] > 0 && ip.reentry == "" {
			ip.reentry = key
		}
		if ip.active[ctxKey] > 0 {
			panic(&refPanic{kind: "diverge", why: "rule " + key + " re-entered"})
		}
	}
	ip.activePlain[key]++
	ip.active[ctxKey]++
	ip.rstack = append(ip.rstack, r)
	ok, end, val := ip.eval(r.Expr, pos, map[string]any{})
	ip.rstack = ip.rstack[:len(ip.rstack)-1]
	ip.active[ctxKey]--
	ip.activePlain[key]--
	if useMemo && !lrRule {
		ip.ruleMemo[key] = memoVal{ok, end, val}
	}
	return ok, end, val
}

// inLRRule reports whether the rule being evaluated belongs to a
// left-recursive cycle (the runtime does not use the expression table there).
func (ip *Interp) inLRRule() bool {
	return ip.O.LeftRec && ip.an != nil && len(ip.rstack) > 0 && ip.an.LeftRec[ip.rstack[len(ip.rstack)-1].Name]
}

// isHead decides whether the left-recursive rule r, entered at pos, grows a
// seed: no rule of its cycle is growing one at this position already.
func (ip *Interp) isHead(r *Rule, pos int) bool {
	if ip.O.LeaderHeads != nil {
		return ip.O.LeaderHeads[r.Name]
	}
	for k := range ip.seeds {
		i := strings.LastIndex(k, "@")
		if k[i+1:] != strconv.Itoa(pos) {
			continue
		}
		other := k[:i]
		// same cycle: each reaches the other
		if ip.reaches(other, r.Name) && ip.reaches(r.Name, other) {
			return false
		}
	}
	return true
}

// isHeadFree reports whether no seed of r's cycle exists at pos.
func (ip *Interp) isHeadFree(r *Rule, pos int) bool {
	for k := range ip.seeds {
		i := strings.LastIndex(k, "@")
		if k[i+1:] != strconv.Itoa(pos) {
			continue
		}
		other := k[:i]
		if ip.reaches(other, r.Name) && ip.reaches(r.Name, other) {
			return false
		}
	}
	return true
}

func (ip *Interp) reaches(from, to string) bool {
	seen := map[string]bool{}
	var dfs func(n string) bool
	dfs = func(n string) bool {
		for m := range ip.an.First[n] {
			if m == to {
				return true
			}
			if !seen[m] {
				seen[m] = true
				if dfs(m) {
					return true
				}
			}
		}
		return false
	}
	return from == to || dfs(from)
}

// grow evaluates a left-recursive rule by seed growing.
func (ip *Interp) grow(r *Rule, pos int, key string) (bool, int, any) {
	seed := memoVal{ok: false, end: pos}
	for depth := 0; ; depth++ {
		ip.seeds[key] = seed
		savedSt, nerrs := ip.st, len(ip.errs)
		ip.rstack = append(ip.rstack, r)
		ok, end, val := ip.eval(r.Expr, pos, map[string]any{})
		ip.rstack = ip.rstack[:len(ip.rstack)-1]
		if !ok || (end <= seed.end && depth != 0) {
			// errors and state changes of the final, non-extending attempt
			// are not retained
			ip.st = savedSt
			ip.errs = ip.errs[:nerrs]
			break
		}
		seed = memoVal{ok, end, val}
	}
	delete(ip.seeds, key)
	return seed.ok, seed.end, seed.val
}

func foldEq(a, b rune) bool {
	return unicode.ToLower(a) == unicode.ToLower(b)
}

// ClassMatch is the reference class semantics.
func ClassMatch(c *Class, r rune) bool { return classMatch(c, r, false) }

// classMatch: lowerOnly models QClassUnicodeLower.
func classMatch(c *Class, r rune, lowerOnly bool) bool {
	in := false
	for _, it := range c.Items {
		if it.Unicode != "" {
			rt := unicodeTable(it.Unicode)
			if rt == nil {
				continue
			}
			switch {
			case !c.IgnoreCase:
				if unicode.Is(rt, r) {
					in = true
				}
			case lowerOnly:
				if unicode.Is(rt, unicode.ToLower(r)) {
					in = true
				}
			default:
				// member iff some rune with the same case folding is in the class
				if unicode.Is(rt, r) || unicode.Is(rt, unicode.ToLower(r)) || unicode.Is(rt, unicode.ToUpper(r)) {
					in = true
				}
			}
			continue
		}
		if c.IgnoreCase {
			// member iff some element x of the item folds to the same as r
			if it.Lo == it.Hi {
				if foldEq(it.Lo, r) {
					in = true
				}
			} else {
				for x := it.Lo; x <= it.Hi; x++ {
					if foldEq(x, r) {
						in = true
						break
					}
				}
			}
		} else if r >= it.Lo && r <= it.Hi {
			in = true
		}
	}
	return in != c.Inverted
}

func unicodeTable(name string) *unicode.RangeTable {
	if rt, ok := unicode.Categories[name]; ok {
		return rt
	}
	if rt, ok := unicode.Properties[name]; ok {
		return rt
	}
	if rt, ok := unicode.Scripts[name]; ok {
		return rt
	}
	return nil
}

func (ip *Interp) eval(e *Expr, pos int, env map[string]any) (ok bool, end int, val any) {
	ip.evals++
	if ip.evals > ip.O.MaxEval {
		panic(&refPanic{kind: "budget"})
	}
	// (labeled expressions are never answered from the table: they bind their
	// label in the current scope)
	useMemo := (ip.O.Quirks[QMemo] || ip.O.Quirks[QMemoRebind]) && e.K != KLabel && !ip.inLRRule()
	if useMemo {
		if ip.memo == nil {
			ip.memo = map[memoKey]memoVal{}
		}
		if m, ok := ip.memo[memoKey{e, pos}]; ok {
			if m.ok && e.K == KLabel && ip.O.Quirks[QMemoRebind] {
				env[e.Name] = m.val
			}
			return m.ok, m.end, m.val
		}
	}
	saved := ip.st
	ok, end, val = ip.evalInner(e, pos, env)
	if !ok {
		// a failing expression leaves the state store as it found it
		ip.st = saved
		end = pos
	}
	if useMemo {
		ip.memo[memoKey{e, pos}] = memoVal{ok, end, val}
	}
	return ok, end, val
}

func (ip *Interp) evalInner(e *Expr, pos int, env map[string]any) (bool, int, any) {
	in := ip.In
	switch e.K {
	case KLit:
		p := pos
		for _, want := range e.Val {
			r, w, _ := Decode(in[p:])
			if w == 0 && want == 0xFFFD && ip.O.Quirks[QLitFFFDEOF] {
				continue
			}
			if w == 0 {
				ip.record(false, pos, LitWant(e))
				return false, pos, nil
			}
			if e.IgnoreCase {
				if !foldEq(r, want) {
					ip.record(false, pos, LitWant(e))
					return false, pos, nil
				}
			} else if r != want {
				ip.record(false, pos, LitWant(e))
				return false, pos, nil
			}
			p += w
			ip.advance(p)
		}
		ip.record(true, pos, LitWant(e))
		return true, p, in[pos:p]
	case KClass:
		r, w, _ := Decode(in[pos:])
		if w == 0 || !classMatch(e.Class, r, ip.O.Quirks[QClassUnicodeLower]) {
			ip.record(false, pos, ClassSrc(e))
			return false, pos, nil
		}
		ip.advance(pos + w)
		ip.record(true, pos, ClassSrc(e))
		return true, pos + w, in[pos : pos+w]
	case KAny:
		_, w, _ := Decode(in[pos:])
		if w == 0 {
			ip.record(false, pos, ".")
			return false, pos, nil
		}
		ip.advance(pos + w)
		ip.record(true, pos, ".")
		return true, pos + w, in[pos : pos+w]
	case KSeq:
		p := pos
		vals := make([]any, 0, len(e.Kids))
		for _, k := range e.Kids {
			ok, end, v := ip.eval(k, p, env)
			if !ok {
				if p > pos {
					ip.backtr = true
				}
				return false, pos, nil
			}
			p = end
			vals = append(vals, v)
		}
		return true, p, vals
	case KChoice:
		for _, k := range e.Kids {
			ok, end, v := ip.eval(k, pos, map[string]any{})
			if ok {
				return true, end, v
			}
		}
		return false, pos, nil
	case KOpt:
		ok, end, v := ip.eval(e.Kids[0], pos, map[string]any{})
		if ok {
			return true, end, v
		}
		return true, pos, nil
	case KStar, KPlus:
		var vals []any
		p := pos
		for {
			ok, end, v := ip.eval(e.Kids[0], p, map[string]any{})
			if !ok {
				break
			}
			if end == p {
				// an iteration that consumes nothing repeats forever; with Memoize the runtime
				// answers the following iterations from its expression table unless the body is
				// a labeled expression or the rule belongs to a left-recursive cycle
				ip.divergeMemo = e.Kids[0].K != KLabel && !ip.inLRRule()
				panic(&refPanic{kind: "diverge", why: "empty iteration"})
			}
			p = end
			vals = append(vals, v)
		}
		if e.K == KPlus && len(vals) == 0 {
			return false, pos, nil
		}
		if vals == nil {
			return true, p, []any(nil)
		}
		return true, p, vals
	case KAnd:
		saved := ip.st
		ok, _, _ := ip.eval(e.Kids[0], pos, map[string]any{})
		ip.st = saved
		return ok, pos, nil
	case KNot:
		saved := ip.st
		ip.invert = !ip.invert
		ok, _, _ := ip.eval(e.Kids[0], pos, map[string]any{})
		ip.invert = !ip.invert
		ip.st = saved
		return !ok, pos, nil
	case KLabel:
		ok, end, v := ip.eval(e.Kids[0], pos, map[string]any{})
		if ok {
			env[e.Name] = v
		}
		return ok, end, v
	case KRef:
		r := ip.G.Rule(e.Name)
		if r == nil {
			ip.errs = append(ip.errs, ErrRec{Off: pos, Rule: ip.ruleName(), Kind: "undefined", Inner: "undefined rule: " + e.Name})
			return false, pos, nil
		}
		return ip.evalRule(r, pos)
	case KAction:
		ok, end, _ := ip.eval(e.Kids[0], pos, env)
		if !ok {
			return false, pos, nil
		}
		v, _, err := ip.block(e, pos, end, string(in[pos:end]), env, true)
		if err != nil {
			ip.errs = append(ip.errs, ErrRec{Off: pos, Rule: ip.ruleName(), Kind: "script", Inner: err.Msg, Seq: err.Seq})
		}
		return true, end, v
	case KAndCode, KNotCode:
		_, b, err := ip.block(e, pos, pos, "", env, true)
		if err != nil {
			ip.errs = append(ip.errs, ErrRec{Off: pos, Rule: ip.ruleName(), Kind: "script", Inner: err.Msg, Seq: err.Seq})
		}
		if e.K == KNotCode {
			b = !b
		}
		return b, pos, nil
	case KState:
		_, _, err := ip.block(e, pos, pos, "", env, false)
		if err != nil {
			ip.errs = append(ip.errs, ErrRec{Off: pos, Rule: ip.ruleName(), Kind: "script", Inner: err.Msg, Seq: err.Seq})
		}
		return true, pos, nil
	case KThrow:
		for i := len(ip.handlers) - 1; i >= 0; i-- {
			h := ip.handlers[i]
			listed := false
			for _, l := range h.labels {
				if l == e.Name {
					listed = true
				}
			}
			if !listed {
				continue
			}
			henv := h.env
			if ip.O.DynamicRecoveryScope || ip.O.Quirks[QRecoverNoScope] {
				henv = env
			}
			ip.caught++
			tk := fmt.Sprintf("%s@%d#%d", e.Name, pos, i)
			if ip.active[tk] > 0 {
				// a handler that throws its own label again at the same position
				panic(&refPanic{kind: "diverge", why: "handler re-entered " + tk})
			}
			ip.active[tk]++
			ok, end, v := ip.eval(h.expr, pos, henv)
			ip.active[tk]--
			if ok {
				return true, end, v
			}
		}
		return false, pos, nil
	case KRecover:
		// a recovery operator opens a label scope of its own (shared by the guarded and the
		// recovery expression: the scope the builder gives their blocks, scope.go)
		if !ip.O.Quirks[QRecoverNoScope] {
			env = map[string]any{}
		}
		ip.handlers = append(ip.handlers, handler{e.FailLabels, e.Kids[1], env})
		ok, end, v := ip.eval(e.Kids[0], pos, env)
		ip.handlers = ip.handlers[:len(ip.handlers)-1]
		return ok, end, v
	}
	panic("peg: unknown kind")
}

// LitWant is how pigeon names a literal in "expected" lists.
func LitWant(e *Expr) string {
	s := strconv.Quote(e.Val)
	if e.IgnoreCase {
		s += "i"
	}
	return s
}

// block runs one scripted code block in the reference.
func (ip *Interp) block(e *Expr, start, cur int, text string, env map[string]any, discard bool) (any, bool, *rtapi.ScriptErr) {
	kind := map[Kind]byte{KAction: rtapi.KAction, KAndCode: rtapi.KAnd, KNotCode: rtapi.KNot, KState: rtapi.KState}[e.K]
	ev := rtapi.Event{ID: e.ID, Kind: kind, Pos: ip.Pos.At(start), Text: text}
	if kind == rtapi.KAction {
		ip.curPos, ip.curText = ev.Pos, text
	} else if ip.O.Quirks[QPredStale] {
		ev.Pos, ev.Text = ip.curPos, ip.curText
	}
	args := make([]any, len(e.Args))
	for i, a := range e.Args {
		args[i] = env[a]
		ev.Labels = append(ev.Labels, rtapi.Canon(args[i]))
		ev.Flats = append(ev.Flats, rtapi.Flat(args[i]))
	}
	if ip.O.HasState {
		ev.State = ip.st.canon()
	}
	ev.Global = ip.global.canon2()
	blk := ip.Script[e.ID]
	if blk == nil {
		blk = &rtapi.Block{Kind: kind}
	}
	saved := ip.st
	id := strconv.Itoa(e.ID) + ","
	if blk.Ops&rtapi.OpShallow != 0 && ip.O.HasState {
		ip.st.hasS = true
		ip.st.S += id
	}
	if blk.Ops&rtapi.OpCloner != 0 && ip.O.HasState && ip.st.hasL {
		ip.st.L += id
	}
	if blk.Ops&rtapi.OpGlobal != 0 {
		ip.global.hasS = true
		ip.global.S += id
	}
	if discard {
		// changes made inside action and predicate blocks are discarded
		ip.st = saved
	}
	var serr *rtapi.ScriptErr
	if blk.Err != "" || blk.Panic != 0 {
		ip.errSeq++
		ev.ErrSeq = ip.errSeq
	}
	ip.log = append(ip.log, ev)
	switch blk.Panic {
	case 1:
		panic(&refPanic{kind: "script", val: &rtapi.ScriptErr{Seq: ip.errSeq, Msg: "panic-" + blk.Err}, off: cur, rule: ip.ruleName()})
	case 2:
		panic(&refPanic{kind: "script", val: "str-" + blk.Err, off: cur, rule: ip.ruleName()})
	}
	if blk.Err != "" {
		serr = &rtapi.ScriptErr{Seq: ip.errSeq, Msg: blk.Err}
		if blk.ErrText {
			serr.Msg = blk.Err + ":" + text
		}
	}
	var val any
	var ok bool
	switch kind {
	case rtapi.KAction:
		switch blk.Ret {
		case rtapi.RetP:
			val = &rtapi.PVal{ID: e.ID, Text: text, Off: start, Labels: ev.Labels, Flats: ev.Flats}
		case rtapi.RetText:
			val = text
		case rtapi.RetLabel:
			if len(args) > 0 {
				val = args[0]
			}
		}
	case rtapi.KAnd, rtapi.KNot:
		switch blk.Pred {
		case rtapi.PredTrue:
			ok = true
		case rtapi.PredLabel:
			ok = len(args) > 0 && args[0] != nil
		case rtapi.PredNoLab:
			ok = len(args) == 0 || args[0] == nil
		case rtapi.PredOdd:
			ok = ev.Pos[2]%2 == 1
		}
	}
	return val, ok, serr
}

// canon2 renders the global store the way rtapi.CanonStore does.
func (s store) canon2() string {
	if s.hasS {
		return "{g=S" + strconv.Quote(s.S) + "}"
	}
	return "{}"
}

// ErrMessage renders an expected error the way pigeon formats it.
func (ip *Interp) ErrMessage(e ErrRec) string { return ErrMessage(ip.Pos, ip.O.Filename, e) }

func ErrMessage(pt *PosTable, filename string, e ErrRec) string {
	var b strings.Builder
	if filename != "" {
		b.WriteString(filename + ":")
	}
	if e.PosOverride != nil {
		fmt.Fprintf(&b, "%d:%d (%d)", e.PosOverride[0], e.PosOverride[1], e.PosOverride[2])
	} else if e.Off < 0 {
		b.WriteString("1:0 (0)")
	} else {
		p := pt.At(e.Off)
		fmt.Fprintf(&b, "%d:%d (%d)", p[0], p[1], p[2])
	}
	if e.Rule != "" {
		b.WriteString(": rule " + e.Rule)
	}
	b.WriteString(": " + e.Inner)
	return b.String()
}
