package peg

// Static well-formedness analysis, independent of pigeon's: least-fixpoint
// nullability and first-call sets that do descend into lookahead predicates.

// Analysis holds the result for one grammar.
type Analysis struct {
	Nullable map[string]bool
	First    map[string]map[string]bool
	// LeftRec: rules that lie on a cycle of the first-call graph.
	LeftRec map[string]bool
}

func Analyze(g *Grammar) *Analysis {
	g = g.Effective()
	a := &Analysis{Nullable: map[string]bool{}, First: map[string]map[string]bool{}, LeftRec: map[string]bool{}}
	for changed := true; changed; {
		changed = false
		for _, r := range g.Rules {
			if !a.Nullable[r.Name] && a.nullable(r.Expr) {
				a.Nullable[r.Name] = true
				changed = true
			}
		}
	}
	for _, r := range g.Rules {
		set := map[string]bool{}
		a.first(r.Expr, set)
		a.First[r.Name] = set
	}
	// a rule is left-recursive iff it can reach itself
	for _, r := range g.Rules {
		seen := map[string]bool{}
		var dfs func(n string) bool
		dfs = func(n string) bool {
			for m := range a.First[n] {
				if m == r.Name {
					return true
				}
				if !seen[m] {
					seen[m] = true
					if dfs(m) {
						return true
					}
				}
			}
			return false
		}
		if dfs(r.Name) {
			a.LeftRec[r.Name] = true
		}
	}
	return a
}

func (a *Analysis) nullable(e *Expr) bool {
	switch e.K {
	case KLit:
		return e.Val == ""
	case KClass, KAny:
		return false
	case KSeq:
		for _, k := range e.Kids {
			if !a.nullable(k) {
				return false
			}
		}
		return true
	case KChoice:
		for _, k := range e.Kids {
			if a.nullable(k) {
				return true
			}
		}
		return false
	case KOpt, KStar, KAnd, KNot, KAndCode, KNotCode, KState, KThrow:
		return true
	case KPlus, KLabel, KAction:
		return a.nullable(e.Kids[0])
	case KRef:
		return a.Nullable[e.Name]
	case KRecover:
		return a.nullable(e.Kids[0]) || a.nullable(e.Kids[1])
	}
	return false
}

func (a *Analysis) first(e *Expr, set map[string]bool) {
	switch e.K {
	case KRef:
		set[e.Name] = true
	case KSeq:
		for _, k := range e.Kids {
			a.first(k, set)
			if !a.nullable(k) {
				return
			}
		}
	case KChoice, KRecover:
		for _, k := range e.Kids {
			a.first(k, set)
		}
	case KOpt, KStar, KPlus, KAnd, KNot, KLabel, KAction:
		a.first(e.Kids[0], set)
	}
}

// HasCycle reports whether any rule is left-recursive.
func (a *Analysis) HasCycle() bool { return len(a.LeftRec) > 0 }

// AnalyzeChoiceBlind models finding D22: pigeon's nullable visit stops at the
// first nullable alternative of a choice, so the nullable flags cached on the
// expressions of the LATER alternatives (choices, sequences, rule references,
// actions, recovery expressions) stay false, and a sequence there is taken to
// begin only with its first item. Everything else is the exact analysis.
func AnalyzeChoiceBlind(g *Grammar) *Analysis {
	g = g.Effective()
	exact := Analyze(g)
	visited := map[*Expr]bool{}
	var visit func(e *Expr)
	visit = func(e *Expr) {
		visited[e] = true
		switch e.K {
		case KChoice:
			for _, k := range e.Kids {
				visit(k)
				if exact.nullable(k) {
					break
				}
			}
		default:
			for _, k := range e.Kids {
				visit(k)
			}
		}
	}
	for _, r := range g.Rules {
		visit(r.Expr)
	}
	a := &Analysis{Nullable: exact.Nullable, First: map[string]map[string]bool{}, LeftRec: map[string]bool{}}
	var cached func(e *Expr) bool
	cached = func(e *Expr) bool {
		switch e.K {
		case KChoice, KSeq, KRef, KAction, KRecover:
			return visited[e] && exact.nullable(e)
		case KLabel, KPlus:
			return cached(e.Kids[0])
		}
		return exact.nullable(e)
	}
	var first func(e *Expr, set map[string]bool)
	first = func(e *Expr, set map[string]bool) {
		switch e.K {
		case KRef:
			set[e.Name] = true
		case KSeq:
			for _, k := range e.Kids {
				first(k, set)
				if !cached(k) {
					return
				}
			}
		case KChoice, KRecover:
			for _, k := range e.Kids {
				first(k, set)
			}
		case KOpt, KStar, KPlus, KAnd, KNot, KLabel, KAction:
			first(e.Kids[0], set)
		}
	}
	for _, r := range g.Rules {
		set := map[string]bool{}
		first(r.Expr, set)
		a.First[r.Name] = set
	}
	for _, r := range g.Rules {
		seen := map[string]bool{}
		var dfs func(n string) bool
		dfs = func(n string) bool {
			for m := range a.First[n] {
				if m == r.Name {
					return true
				}
				if !seen[m] {
					seen[m] = true
					if dfs(m) {
						return true
					}
				}
			}
			return false
		}
		if dfs(r.Name) {
			a.LeftRec[r.Name] = true
		}
	}
	return a
}

// AnalyzeThrowAware is the exact analysis extended by one conservative rule:
// a throw of label l may invoke any recovery expression of the grammar that
// lists l, so the first-call set of the throw contains theirs. Used to
// recognise finding D26 (left recursion through a handler of another rule).
func AnalyzeThrowAware(g *Grammar) *Analysis {
	g = g.Effective()
	exact := Analyze(g)
	handlers := map[string][]*Expr{}
	for _, r := range g.Rules {
		r.Expr.Walk(func(e *Expr) {
			if e.K == KRecover {
				for _, l := range e.FailLabels {
					handlers[l] = append(handlers[l], e.Kids[1])
				}
			}
		})
	}
	a := &Analysis{Nullable: exact.Nullable, First: map[string]map[string]bool{}, LeftRec: map[string]bool{}}
	var first func(e *Expr, set map[string]bool, depth int)
	first = func(e *Expr, set map[string]bool, depth int) {
		switch e.K {
		case KRef:
			set[e.Name] = true
		case KThrow:
			if depth < 8 {
				for _, h := range handlers[e.Name] {
					first(h, set, depth+1)
				}
			}
		case KSeq:
			for _, k := range e.Kids {
				first(k, set, depth)
				if !exact.nullable(k) {
					return
				}
			}
		case KChoice, KRecover:
			for _, k := range e.Kids {
				first(k, set, depth)
			}
		case KOpt, KStar, KPlus, KAnd, KNot, KLabel, KAction:
			first(e.Kids[0], set, depth)
		}
	}
	for _, r := range g.Rules {
		set := map[string]bool{}
		first(r.Expr, set, 0)
		a.First[r.Name] = set
	}
	for _, r := range g.Rules {
		seen := map[string]bool{}
		var dfs func(n string) bool
		dfs = func(n string) bool {
			for m := range a.First[n] {
				if m == r.Name {
					return true
				}
				if !seen[m] {
					seen[m] = true
					if dfs(m) {
						return true
					}
				}
			}
			return false
		}
		if dfs(r.Name) {
			a.LeftRec[r.Name] = true
		}
	}
	return a
}

// InlinableRules returns the rules that -optimize-grammar replaces by a copy at every
// reference ("replace rule references with a copy of the referenced Rule, if the referenced
// rule it self has no references", applied until nothing changes): the least set of defined
// rules all of whose references lead to rules of the set. Rules on a cycle are never in it.
func InlinableRules(g *Grammar) map[string]bool {
	g = g.Effective()
	inl := map[string]bool{}
	for changed := true; changed; {
		changed = false
		for _, r := range g.Rules {
			if inl[r.Name] {
				continue
			}
			ok := true
			r.Expr.Walk(func(e *Expr) {
				if e.K == KRef && !inl[e.Name] {
					ok = false
				}
			})
			if ok {
				inl[r.Name] = true
				changed = true
			}
		}
	}
	return inl
}
