// Package tmpl holds the source templates that are instantiated into every
// runtime variant package (loader path) and into compiled generated parsers
// (compile path).
package tmpl

import (
	"bytes"
	"embed"
	"text/template"
)

//go:embed *.tmpl
var fs embed.FS

// Data parameterises a template.
type Data struct {
	Pkg      string
	Index    int
	Types    []string
	Funcs    []string // top-level functions of the static code (callable from the grammar literal)
	HasState bool
	HasMemo  bool
}

// Render instantiates name ("glue.go", "vprobe.go", "run.go").
func Render(name string, d Data) ([]byte, error) {
	t, err := template.ParseFS(fs, name+".tmpl")
	if err != nil {
		return nil, err
	}
	var buf bytes.Buffer
	if err := t.Execute(&buf, d); err != nil {
		return nil, err
	}
	return buf.Bytes(), nil
}
