// Package rtapi holds the types shared between the reference model, the
// harness and the glue code that is compiled into every runtime variant
// package (build/rt/vNN). It deliberately knows nothing about pigeon.
package rtapi

import (
	"fmt"

	"sort"
	"strconv"
	"strings"
	"verif/engine/golit"
)

// Block kinds.
const (
	KAction = 'a'
	KAnd    = '&'
	KNot    = '!'
	KState  = '#'
)

// Predicate modes.
const (
	PredTrue  = 0
	PredFalse = 1
	PredLabel = 2 // true iff first label argument is non-nil
	PredNoLab = 3 // true iff first label argument is nil
	PredOdd   = 4 // true iff c.pos.offset is odd
)

// State operations (bit mask).
const (
	OpShallow = 1 // state["s"] = state["s"].(string) + "<id>,"
	OpCloner  = 2 // state["l"].(*CloneList).Items append in place
	OpGlobal  = 4 // globalStore["g"] = globalStore["g"].(string) + "<id>,"
)

// Action return kinds.
const (
	RetP     = 0 // &PVal{id, text, off, labels}
	RetText  = 1 // string(c.text)
	RetNil   = 2
	RetLabel = 3 // first label argument (nil if none)
)

// Block is the scripted behaviour of one code block.
type Block struct {
	Kind  byte
	Pred  int    // predicate mode
	Err   string // non-empty: return this error message
	// ErrText: the message also names the matched text (Err + ":" + text), so that the same block
	// run again at the same start on ANOTHER text makes another message
	ErrText bool
	Panic int    // 0 none, 1 panic(error), 2 panic(string)
	Ops   int    // state operations attempted by the block
	Ret   int    // action return kind
	NArgs int    // number of label arguments the body passes
	// Nested: the block calls Parse of the same package on this input before it
	// returns (an include / a sub-language), with NestedEntry as entrypoint when set;
	// the nested result is discarded
	Nested      *string
	NestedEntry string
}

// Event is one code block invocation as seen by the block.
type Event struct {
	ID     int
	Kind   byte
	Pos    [3]int // line, col, offset as seen in c.pos
	Text   string
	Labels []string // canonical values of the label arguments
	Flats  []string // flat rendering of the label arguments
	State  string   // canonical snapshot of c.state ("" if variant has none)
	Global string   // canonical snapshot of c.globalStore (harness key removed)
	ErrSeq int      // sequence number of the error returned/panicked (0 none)
}

func (e Event) String() string {
	return fmt.Sprintf("%c%d@%d:%d(%d) t=%q l=%v s=%s g=%s e=%d", e.Kind, e.ID, e.Pos[0], e.Pos[1], e.Pos[2], e.Text, e.Labels, e.State, e.Global, e.ErrSeq)
}

// Diverged is the panic value raised when the tick cap is exceeded.
type Diverged struct{}

func (Diverged) Error() string { return "verif: tick cap exceeded" }

// Yielder is implemented by the controlled scheduler.
type Yielder interface {
	Yield(tid int, kind string)
}

// Ctx is the per-Parse-call harness context, reachable from code blocks and
// ticks through globalStore["__v"].
type Ctx struct {
	Script    map[int]*Block
	Log       []Event
	Ticks     int
	TickCap   int
	Diverged  bool
	ErrSeq    int
	TID       int
	Sched     Yielder // nil outside C18
	TickYield bool    // yield at every tick (mode B)
	NoState   bool    // do not snapshot state (variant has none)
	Shared    bool    // several Parse calls may be in flight (C18)
	// TrackEvals: count the evaluations of every (expression node, offset)
	// pair (hook at the entry of parseExpr); EvalRepeat describes the first
	// pair evaluated twice, EvalCalls counts the hook calls.
	TrackEvals bool
	evals      map[evalKey]bool
	EvalRepeat string
	EvalCalls  int
}

type evalKey struct {
	node   any
	offset int
}

// Eval records one evaluation of node at offset (kind names the node type).
func (c *Ctx) Eval(node any, kind string, offset int) {
	c.EvalCalls++
	if c.evals == nil {
		c.evals = map[evalKey]bool{}
	}
	k := evalKey{node, offset}
	if c.evals[k] && c.EvalRepeat == "" {
		c.EvalRepeat = fmt.Sprintf("%s at offset %d", kind, offset)
	}
	c.evals[k] = true
}

func (c *Ctx) Tick() {
	c.Ticks++
	if c.TickCap > 0 && c.Ticks > c.TickCap {
		c.Diverged = true
		panic(Diverged{})
	}
	if c.TickYield && c.Sched != nil {
		c.Sched.Yield(c.TID, "tick")
	}
}

// ScriptErr is the error value produced by scripted blocks.
type ScriptErr struct {
	Seq int
	Msg string
}

func (e *ScriptErr) Error() string { return e.Msg }

// PVal is the value manufactured by scripted actions.
type PVal struct {
	ID     int
	Text   string
	Off    int
	Labels []string
	Flats  []string // Flat rendering of the label values
}

// Flat renders a value so that regrouping of action-less structure is
// invisible: matched bytes are concatenated, values made by actions are
// kept (with their own labels rendered flat).
func Flat(v any) string {
	var b strings.Builder
	flat(&b, v, 0)
	return b.String()
}

func flat(b *strings.Builder, v any, depth int) {
	if depth > maxDepth || b.Len() > 1<<16 {
		b.WriteString("<too deep>")
		return
	}
	switch v := v.(type) {
	case nil:
	case []byte:
		b.Write(v)
	case string:
		b.WriteString("S" + strconv.Quote(v))
	case []any:
		for _, x := range v {
			flat(b, x, depth+1)
		}
	case *PVal:
		fmt.Fprintf(b, "<P%d %q@%d", v.ID, v.Text, v.Off)
		for _, l := range v.Flats {
			b.WriteString(";" + l)
		}
		b.WriteString(">")
	default:
		b.WriteString(Canon(v))
	}
}

// CloneList is the Cloner-implementing state value.
type CloneList struct{ Items []string }

func (l *CloneList) Clone() any {
	return &CloneList{Items: append([]string(nil), l.Items...)}
}

// Canon renders a parse value canonically.
func Canon(v any) string {
	var b strings.Builder
	canon(&b, v, 0)
	return b.String()
}

// maxDepth guards against cyclic values (a corrupted parser can return a
// slice that contains itself).
const maxDepth = 64

func canon(b *strings.Builder, v any, depth int) {
	if depth > maxDepth || b.Len() > 1<<16 {
		b.WriteString("<too deep>")
		return
	}
	switch v := v.(type) {
	case nil:
		b.WriteString("nil")
	case []byte:
		b.WriteString("B")
		b.WriteString(strconv.Quote(string(v)))
	case string:
		b.WriteString("S")
		b.WriteString(strconv.Quote(v))
	case []any:
		b.WriteString("[")
		for i, x := range v {
			if i > 0 {
				b.WriteString(" ")
			}
			canon(b, x, depth+1)
		}
		b.WriteString("]")
	case *PVal:
		if v == nil {
			b.WriteString("P<nil>")
			return
		}
		fmt.Fprintf(b, "P%d(%q@%d", v.ID, v.Text, v.Off)
		for _, l := range v.Labels {
			b.WriteString(";")
			b.WriteString(l)
		}
		b.WriteString(")")
	case *CloneList:
		b.WriteString("L")
		b.WriteString(strings.Join(v.Items, ""))
	case bool:
		b.WriteString(strconv.FormatBool(v))
	case int:
		b.WriteString(strconv.Itoa(v))
	case *ScriptErr:
		fmt.Fprintf(b, "E%d(%q)", v.Seq, v.Msg)
	case error:
		fmt.Fprintf(b, "err(%q)", v.Error())
	default:
		fmt.Fprintf(b, "?%T(%v)", v, v)
	}
}

// CanonStore renders a state/global store canonically (sorted keys).
func CanonStore(m map[string]any) string {
	if len(m) == 0 {
		return "{}"
	}
	if len(m) == 1 {
		if _, ok := m["__v"]; ok {
			return "{}"
		}
	}
	keys := make([]string, 0, len(m))
	for k := range m {
		if k == "__v" {
			continue
		}
		keys = append(keys, k)
	}
	sort.Strings(keys)
	var b strings.Builder
	b.WriteString("{")
	for i, k := range keys {
		if i > 0 {
			b.WriteString(",")
		}
		b.WriteString(k)
		b.WriteString("=")
		canon(&b, m[k], 0)
	}
	b.WriteString("}")
	return b.String()
}

// RunBlock is the behaviour shared by the implementation-side helpers
// (vact/vpred/vstate in the glue, and the same file pasted into compiled
// grammars) : it logs the event and applies the script. state may be nil.
func RunBlock(ctx *Ctx, kind byte, id int, pos [3]int, text []byte, state, global map[string]any, args []any) (val any, ok bool, err error) {
	if ctx == nil {
		return nil, true, nil
	}
	if ctx.Sched != nil {
		ctx.Sched.Yield(ctx.TID, "block")
	}
	ev := Event{ID: id, Kind: kind, Pos: pos, Text: string(text)}
	for _, a := range args {
		ev.Labels = append(ev.Labels, Canon(a))
		ev.Flats = append(ev.Flats, Flat(a))
	}
	if state != nil {
		ev.State = CanonStore(state)
	}
	ev.Global = CanonStore(global)
	blk := ctx.Script[id]
	if blk == nil {
		blk = &Block{Kind: kind}
	}
	if blk.Ops&OpShallow != 0 && state != nil {
		s, _ := state["s"].(string)
		state["s"] = s + strconv.Itoa(id) + ","
	}
	if blk.Ops&OpCloner != 0 && state != nil {
		if l, ok := state["l"].(*CloneList); ok {
			l.Items = append(l.Items, strconv.Itoa(id)+",")
		}
	}
	if blk.Ops&OpGlobal != 0 {
		s, _ := global["g"].(string)
		global["g"] = s + strconv.Itoa(id) + ","
	}
	if blk.Err != "" || blk.Panic != 0 {
		ctx.ErrSeq++
		ev.ErrSeq = ctx.ErrSeq
	}
	ctx.Log = append(ctx.Log, ev)
	switch blk.Panic {
	case 1:
		panic(&ScriptErr{Seq: ctx.ErrSeq, Msg: "panic-" + blk.Err})
	case 2:
		panic("str-" + blk.Err)
	}
	if blk.Err != "" {
		err = &ScriptErr{Seq: ctx.ErrSeq, Msg: blk.Err}
		if blk.ErrText {
			err = &ScriptErr{Seq: ctx.ErrSeq, Msg: blk.Err + ":" + string(text)}
		}
	}
	switch kind {
	case KAction:
		switch blk.Ret {
		case RetP:
			val = &PVal{ID: id, Text: string(text), Off: pos[2], Labels: ev.Labels, Flats: ev.Flats}
		case RetText:
			val = string(text)
		case RetNil:
			val = nil
		case RetLabel:
			if len(args) > 0 {
				val = args[0]
			}
		}
	case KAnd, KNot:
		switch blk.Pred {
		case PredTrue:
			ok = true
		case PredFalse:
			ok = false
		case PredLabel:
			ok = len(args) > 0 && args[0] != nil
		case PredNoLab:
			ok = len(args) == 0 || args[0] == nil
		case PredOdd:
			ok = pos[2]%2 == 1
		}
	}
	return val, ok, err
}

// RunOpts are the runtime options of one Parse call.
type RunOpts struct {
	Filename   string
	Entrypoint *string
	Memoize    bool
	Debug      bool
	Statistics bool
	// TrackEvals asks for the (expression, offset) evaluation census (C06).
	TrackEvals bool
	// UseReader: call ParseReader (an io.Reader over the input) instead of Parse.
	UseReader bool
	// StatsPreload: the Stats object handed to Statistics already holds this
	// ExprCnt (an object re-used from earlier parses).
	StatsPreload uint64
	MaxExpr      uint64
	NoRecover    bool
	AllowInvalid bool
	InitState    bool // install state["s"]="" and state["l"]=&CloneList{}
	TickCap      int
	// ReuseOpts: pass the option VALUES (Memoize(true), MaxExpressions(n), ...) that were built
	// for the previous call of this process again instead of building fresh ones - what a
	// caller does who keeps opts := []Option{...} for a whole corpus. Only meaningful when the
	// previous call had the same option set.
	ReuseOpts bool
	// Shadowed: the option list starts with the OPPOSITE value of every boolean option and another
	// budget (what a wrapper does that prepends its own defaults to the caller's options); the
	// later occurrences win, so the call itself must behave exactly like the plain one.
	Shadowed bool
	// Doubled: every option is given twice with the same value.
	Doubled bool
}

// ErrInfo describes one element of the returned error list.
type ErrInfo struct {
	Msg       string // full message
	Prefix    string
	Inner     string // message of Inner
	InnerKind string // norule|entrypoint|encoding|maxexpr|script|diverged|other
	InnerSeq  int    // >0: Inner is the *ScriptErr with that Seq (pointer-level identity of the scripted error)
	Pos       [3]int
	Expected  []string
}

// Obs is what one Parse call showed.
type Obs struct {
	Val      string // canonical value
	Flat     string // flat rendering of the value
	ErrNil   bool
	TypeOK   bool // err is errList of *parserError
	Errs     []ErrInfo
	Panic    string // canonical panic value that escaped Parse ("" none)
	Log      []Event
	ExprCnt  uint64 // only with Statistics
	HasStats bool
	Ticks    int
	// raw is the value Parse returned (kept to canonicalise it AGAIN later: a value
	// that aliases a buffer re-used by another call changes after the call returned)
	raw any
	// EvalRepeat / EvalCalls: see Ctx (only with RunOpts.TrackEvals)
	EvalRepeat string `json:",omitempty"`
	EvalCalls  int    `json:",omitempty"`
	Diverged   bool
	Choice     string   // canonical ChoiceAltCnt (Statistics)
	Pool       []string // pool discipline breaches seen during this call
}

// Flags is a generation flag set as far as the runtime variant is concerned.
type Flags struct {
	Optimize, BasicLatin, GlobalState, LeftRecursion bool
}

func (f Flags) Index() int {
	i := 0
	if f.Optimize {
		i |= 1
	}
	if f.BasicLatin {
		i |= 2
	}
	if f.GlobalState {
		i |= 4
	}
	if f.LeftRecursion {
		i |= 8
	}
	return i
}

func FlagsOf(i int) Flags {
	return Flags{i&1 != 0, i&2 != 0, i&4 != 0, i&8 != 0}
}

func (f Flags) HasState() bool { return f.GlobalState || !f.Optimize }
func (f Flags) HasMemo() bool  { return !f.Optimize }

// Runtime is implemented by the glue of every variant package.
type Runtime interface {
	Index() int
	Flags() Flags
	Suffix() string     // unformatted static code text this variant was cut from
	RangeTable() string // unformatted rangeTable0 text
	Load(p *golit.Prefix) error
	Dump() string
	ResetGlobals()
	Run(input []byte, o *RunOpts, ctx *Ctx) *Obs
}

var Runtimes [16]Runtime

func Register(i int, r Runtime) { Runtimes[i] = r }

// SetRaw remembers the value returned by Parse.
func (o *Obs) SetRaw(v any) { o.raw = v }

// Recanon canonicalises the remembered value again.
func (o *Obs) Recanon() string { return Canon(o.raw) }
