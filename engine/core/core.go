// Package core ties the engines together: it sends grammar text through the
// real front-end / optimizer / builder (hook server), loads the emitted
// grammar literal into the matching runtime variant, runs inputs, and
// compares observations with the reference model.
package core

import (
	"fmt"
	"os"
	"path/filepath"
	"regexp"
	"strconv"
	"strings"

	"verif/engine/golit"
	"verif/engine/hook"
	"verif/engine/peg"
	"verif/engine/rtapi"
	"verif/engine/vsync"
)

// Gen is a generation flag set.
type Gen struct {
	Optimize   bool
	BasicLatin bool
	LeftRec    bool
	OptGrammar bool
	AltEntry   []string
}

func (g Gen) String() string {
	var p []string
	if g.Optimize {
		p = append(p, "-optimize-parser")
	}
	if g.BasicLatin {
		p = append(p, "-optimize-basic-latin")
	}
	if g.LeftRec {
		p = append(p, "-support-left-recursion")
	}
	if g.OptGrammar {
		p = append(p, "-optimize-grammar")
	}
	if len(g.AltEntry) > 0 {
		p = append(p, "-alternate-entrypoints="+strings.Join(g.AltEntry, ","))
	}
	if len(p) == 0 {
		return "-"
	}
	return strings.Join(p, " ")
}

func (g Gen) Argv() []string {
	if s := g.String(); s != "-" {
		return strings.Fields(s)
	}
	return nil
}

// Root is /verif (directory holding build/).
func Root() string {
	if r := os.Getenv("VERIF_ROOT"); r != "" {
		return r
	}
	exe, err := os.Executable()
	if err == nil {
		// build/bin/vcheck -> root
		d := filepath.Dir(filepath.Dir(filepath.Dir(exe)))
		if _, err := os.Stat(filepath.Join(d, "MANIFEST.json")); err == nil {
			return d
		}
	}
	wd, _ := os.Getwd()
	return wd
}

func HookBin() string { return filepath.Join(Root(), "build", "bin", "pigeon-verif") }

// Worker owns one hook server.
type Worker struct {
	Srv *hook.Server
}

func NewWorker() (*Worker, error) {
	s, err := hook.Start(HookBin())
	if err != nil {
		return nil, err
	}
	return &Worker{Srv: s}, nil
}

func (w *Worker) Close() { w.Srv.Close() }

// Built is one grammar built by the real tool chain.
type Built struct {
	Text    string
	Gen     Gen
	Err     string // build rejected
	ErrKind string
	Panic   string // Go panic inside the tool chain
	Src     []byte
	Prefix  *golit.Prefix
	RT      rtapi.Runtime
	Flags   rtapi.Flags
	NExprs  int
	// Problems: reasons why the emitted file would not compile / load.
	Problems []string
	// VariantBroken: the runtime variant for this flag set did not compile.
	VariantBroken bool
}

var (
	variants   [][]byte
	variantIdx []int
	current    [16]*Built
)

func initVariants() error {
	if variants != nil {
		return nil
	}
	n := 0
	for i, rt := range rtapi.Runtimes {
		if rt == nil {
			continue // variant did not compile (build/rt/broken.txt)
		}
		n++
		variants = append(variants, []byte(rt.Suffix()+rt.RangeTable()))
		variantIdx = append(variantIdx, i)
	}
	for i, rt := range rtapi.Runtimes {
		if rt == nil {
			continue
		}
		variants = append(variants, []byte(rt.Suffix()))
		variantIdx = append(variantIdx, i)
	}
	if n == 0 {
		return fmt.Errorf("no runtime variant compiled")
	}
	return nil
}

// HarnessError is a failure of the machinery itself (exit 2, never a verdict).
type HarnessError struct{ Msg string }

func (e *HarnessError) Error() string { return "harness: " + e.Msg }

// Build sends the text through front-end, optimizer and builder.
func (w *Worker) Build(text string, gen Gen) (*Built, error) {
	if err := initVariants(); err != nil {
		return nil, &HarnessError{err.Error()}
	}
	r, err := w.Srv.Call(&hook.Req{Mode: "build", Text: []byte(text), Optimize: gen.Optimize, BasicLatin: gen.BasicLatin,
		LeftRec: gen.LeftRec, OptGrammar: gen.OptGrammar, AltEntry: gen.AltEntry})
	if err == hook.ErrDied {
		// the tool itself crashed (fatal error: stack overflow / out of memory): a finding about
		// the tool on this grammar (C13's subject), not a harness failure
		return &Built{Text: text, Gen: gen, Panic: "the tool died (fatal error) on this grammar"}, nil
	}
	if err != nil {
		return nil, &HarnessError{"hook: " + err.Error()}
	}
	b := &Built{Text: text, Gen: gen}
	if r.Hung {
		b.Panic = "hang"
		return b, nil
	}
	if r.ErrKind == "harness" {
		return nil, &HarnessError{r.Err}
	}
	if r.Panic != "" {
		b.Panic = r.Panic
		return b, nil
	}
	if r.Err != "" {
		b.Err, b.ErrKind = r.Err, r.ErrKind
		return b, nil
	}
	b.Src = r.Src
	prefix, vi := golit.SplitSuffix(r.Src, variants)
	if vi < 0 {
		if len(BrokenVariants()) > 0 {
			b.Problems = append(b.Problems, "the runtime for this flag set does not compile (build/rt/broken.txt)")
			b.VariantBroken = true
			return b, nil
		}
		b.Problems = append(b.Problems, "static code of the emitted file matches none of the 16 runtime variants")
		return b, nil
	}
	idx := variantIdx[vi]
	b.RT = rtapi.Runtimes[idx]
	b.Flags = b.RT.Flags()
	if b.Flags.Optimize != gen.Optimize || b.Flags.BasicLatin != gen.BasicLatin {
		b.Problems = append(b.Problems, fmt.Sprintf("runtime variant %d does not correspond to flags %s", idx, gen))
	}
	p, err := golit.ParsePrefix(prefix)
	if err != nil {
		b.Problems = append(b.Problems, "emitted grammar literal does not parse: "+err.Error())
		return b, nil
	}
	b.Prefix = p
	b.Problems = append(b.Problems, p.Problems...)
	b.NExprs = p.G.CountExprs()
	if err := b.RT.Load(p); err != nil {
		b.Problems = append(b.Problems, err.Error())
		b.Prefix = nil
		return b, nil
	}
	current[idx] = b
	return b, nil
}

// OK reports whether the grammar was accepted and can be run.
func (b *Built) OK() bool { return b.Err == "" && b.Panic == "" && b.Prefix != nil }

// RunWarm performs one more Parse call WITHOUT the cold start: the package-level
// state of the runtime and the pools are what the previous call of this
// process left behind (a second call in the same process).
func (b *Built) RunWarm(input []byte, o *rtapi.RunOpts, script map[int]*rtapi.Block) *rtapi.Obs {
	return b.run(input, o, script, false)
}

// RunWarmReuse is RunWarm with the option values of the previous call passed again
// (the previous call must have had the same option set).
func (b *Built) RunWarmReuse(input []byte, o *rtapi.RunOpts, script map[int]*rtapi.Block) *rtapi.Obs {
	o.ReuseOpts = true
	return b.run(input, o, script, false)
}

// Run performs one Parse call.
func (b *Built) Run(input []byte, o *rtapi.RunOpts, script map[int]*rtapi.Block) *rtapi.Obs {
	return b.run(input, o, script, true)
}

func (b *Built) run(input []byte, o *rtapi.RunOpts, script map[int]*rtapi.Block, cold bool) *rtapi.Obs {
	idx := b.RT.Index()
	if current[idx] != b {
		if err := b.RT.Load(b.Prefix); err != nil {
			panic(&HarnessError{"reload: " + err.Error()})
		}
		current[idx] = b
	}
	if o.TickCap == 0 {
		o.TickCap = 400000
		if o.MaxExpr > 0 && o.MaxExpr < 8000 {
			// a parse that stays within the expression budget needs far
			// fewer ticks than this; only runaway loops reach the cap
			o.TickCap = int(o.MaxExpr) * 50
		}
	}
	ctx := &rtapi.Ctx{Script: script}
	// every run starts cold - empty state pools, package-level variables of the
	// runtime re-initialised: an observation is a function of the case alone
	// (replayable, and comparable with a fresh process of the compiled parser),
	// never of the cases or the other grammars run before it in this process.
	// Histories of several calls are C18's subject.
	if cold {
		vsync.Reset()
		b.RT.ResetGlobals()
	}
	obs := b.RT.Run(input, o, ctx)
	if len(vsync.Violations) > 0 {
		obs.Pool = vsync.Violations
		vsync.Violations = nil
		// a corrupted pool must not leak into the next case
		vsync.Reset()
	}
	return obs
}

// RefOptions derives reference options from runtime options and the variant.
func RefOptions(o *rtapi.RunOpts, fl rtapi.Flags) peg.Options {
	return peg.Options{Filename: o.Filename, Entrypoint: o.Entrypoint, AllowInvalid: o.AllowInvalid, NoRecover: o.NoRecover,
		InitState: o.InitState, HasState: fl.HasState(), LeftRec: fl.LeftRecursion}
}

// Dedupe removes later errors with a message already seen.
func DedupeMsgs(msgs []string) []string {
	seen := map[string]bool{}
	var out []string
	for _, m := range msgs {
		if !seen[m] {
			seen[m] = true
			out = append(out, m)
		}
	}
	return out
}

// CmpOpts selects what Compare looks at.
type CmpOpts struct {
	SkipLog  bool
	SkipErrs bool
	SkipVal  bool
	EventKey func(e rtapi.Event) string // nil: all fields
	// LooseEOFCol ignores the column of positions at offset InputLen (only
	// while testing whether a disagreement is the known finding D9).
	LooseEOFCol        bool
	InputLen           int
	SkipNoMatch        bool   // ignore "no match found" errors on both sides (C12 covers them)
	MaxExpr            uint64 // budget the implementation ran with
	IgnoreEncodingErrs bool
	// FlatVal compares the flat rendering of the value (parsers built with -optimize-grammar may
	// regroup action-less structure; the concatenated text and what actions made must not change)
	FlatVal bool
	// SkipInnerSeq: do not compare WHICH invocation of a block made a retained error (only where
	// the number of invocations legitimately differs from the reference's: leader results kept in
	// the rule table, C08)
	SkipInnerSeq bool
}

// Compare returns the differences between the reference expectation and
// the observation ("" slice: agree). skipped is true when the pair is not
// comparable (reference out of budget).
func Compare(ref *peg.Result, obs *rtapi.Obs, pt *peg.PosTable, filename string, co CmpOpts) (diffs []string, skipped bool) {
	implBudget := false
	for _, e := range obs.Errs {
		if e.InnerKind == "maxexpr" {
			implBudget = true
		}
	}
	if obs.Panic == "maxexpr" {
		implBudget = true
	}
	switch ref.Outcome {
	case peg.OBudget:
		return nil, true
	case peg.ODiverge:
		if !implBudget && !obs.Diverged {
			return []string{"reference does not terminate (" + ref.Reentry + ") but the parser returned a result: " + obs.Val}, false
		}
		return nil, false
	case peg.OEscaped:
		if obs.Panic != ref.Panic {
			diffs = append(diffs, fmt.Sprintf("panic: want %s escaping Parse, got %q", ref.Panic, obs.Panic))
		}
		return diffs, false
	}
	if obs.Diverged {
		return []string{"parser exceeded the tick cap although the reference terminates"}, false
	}
	if implBudget {
		if co.MaxExpr > 0 && uint64(ref.Evals)*4 < co.MaxExpr {
			return []string{fmt.Sprintf("parser exhausted MaxExpressions(%d) although the reference needs %d evaluations", co.MaxExpr, ref.Evals)}, false
		}
		return nil, true
	}
	if obs.Panic != "" {
		return []string{"unexpected panic escaped Parse: " + obs.Panic}, false
	}
	if !co.SkipVal && !co.FlatVal && obs.Val != ref.Val {
		diffs = append(diffs, fmt.Sprintf("value: want %s got %s", ref.Val, obs.Val))
	}
	if !co.SkipVal && co.FlatVal && obs.Flat != ref.Flat {
		diffs = append(diffs, fmt.Sprintf("flat value: want %q got %q", ref.Flat, obs.Flat))
	}
	if !co.SkipErrs {
		var want, got []string
		var wantSeq, gotSeq []int
		seen := map[string]bool{}
		for _, e := range ref.Errs {
			if co.IgnoreEncodingErrs && e.Kind == "encoding" {
				continue
			}
			if co.SkipNoMatch && e.Kind == "nomatch" {
				continue
			}
			m := peg.ErrMessage(pt, filename, e)
			if !seen[m] {
				seen[m] = true
				want = append(want, m)
				wantSeq = append(wantSeq, e.Seq)
			}
		}
		for _, e := range obs.Errs {
			if co.IgnoreEncodingErrs && e.InnerKind == "encoding" {
				continue
			}
			if co.SkipNoMatch && e.InnerKind == "other" && strings.HasPrefix(e.Inner, "no match found") {
				continue
			}
			got = append(got, e.Msg)
			gotSeq = append(gotSeq, e.InnerSeq)
		}
		if co.LooseEOFCol {
			for i := range want {
				want[i] = looseEOF(want[i], co.InputLen)
			}
			for i := range got {
				got[i] = looseEOF(got[i], co.InputLen)
			}
		}
		if strings.Join(want, "\n") != strings.Join(got, "\n") {
			diffs = append(diffs, fmt.Sprintf("errors: want %q got %q", want, got))
		} else {
			for i := range want {
				if wantSeq[i] != gotSeq[i] && !co.SkipInnerSeq {
					diffs = append(diffs, fmt.Sprintf("error %d: Inner is not the original error (want seq %d got %d)", i, wantSeq[i], gotSeq[i]))
				}
			}
		}
		if !co.SkipNoMatch && (len(ref.Errs) == 0) != obs.ErrNil {
			diffs = append(diffs, fmt.Sprintf("err nil-ness: want %d errors, ErrNil=%v", len(ref.Errs), obs.ErrNil))
		}
		if !obs.TypeOK {
			diffs = append(diffs, "error is not an errList of *parserError")
		}
	}
	for _, pv := range obs.Pool {
		diffs = append(diffs, "state pool discipline: "+pv)
	}
	if !co.SkipLog {
		if d := CompareLogs(ref.Log, obs.Log, co.EventKey); d != "" {
			diffs = append(diffs, d)
		}
	}
	return diffs, false
}

// CompareLogs compares code block event logs.
func CompareLogs(want, got []rtapi.Event, key func(rtapi.Event) string) string {
	n := len(want)
	if len(got) < n {
		n = len(got)
	}
	if key == nil {
		key = rtapi.Event.String
	}
	for i := 0; i < n; i++ {
		if key(want[i]) != key(got[i]) {
			return fmt.Sprintf("block event %d: want %s got %s", i, want[i], got[i])
		}
	}
	if len(want) != len(got) {
		return fmt.Sprintf("block events: want %d got %d", len(want), len(got))
	}
	return ""
}

var posRe = regexp.MustCompile(`(\d+):(\d+) \((\d+)\)`)

func looseEOF(msg string, n int) string {
	return posRe.ReplaceAllStringFunc(msg, func(m string) string {
		sm := posRe.FindStringSubmatch(m)
		if sm[3] == strconv.Itoa(n) {
			return sm[1] + ":* (" + sm[3] + ")"
		}
		return m
	})
}

// BrokenVariants returns the lines of build/rt/broken.txt (runtime variants
// of the working tree that do not compile).
func BrokenVariants() []string {
	b, err := os.ReadFile(filepath.Join(Root(), "build", "rt", "broken.txt"))
	if err != nil {
		return nil
	}
	var out []string
	for _, l := range strings.Split(string(b), "\n") {
		if strings.TrimSpace(l) != "" {
			out = append(out, l)
		}
	}
	return out
}
