package core

import (
	"fmt"
	"regexp"
	"strconv"
	"strings"

	"verif/engine/hook"
	"verif/engine/peg"
)

var bodyRe = regexp.MustCompile(`^\{\s*return\s+(vact|vand|vnot|vst)\(\s*\w+\s*,\s*(\d+)\s*((?:,\s*\w+\s*)*)\)\s*\}$`)

// FromAST converts a front-end AST dump into the reference AST. Code blocks
// must have the canonical body; otherwise they get id -1.
func FromAST(n *hook.Node) (*peg.Grammar, error) {
	if n == nil || n.K != "grammar" {
		return nil, fmt.Errorf("not a grammar node")
	}
	g := &peg.Grammar{}
	for _, r := range n.Kids {
		rule := &peg.Rule{Name: string(r.Name.V)}
		if r.Display != nil {
			d, err := strconv.Unquote(string(r.Display.V))
			if err != nil {
				d = string(r.Display.V)
			}
			rule.Display = d
		}
		e, err := fromExpr(r.Kids[0])
		if err != nil {
			return nil, err
		}
		rule.Expr = e
		g.Rules = append(g.Rules, rule)
	}
	return g, nil
}

func code(e *peg.Expr, c *hook.Node) {
	e.ID = -1
	if c == nil {
		return
	}
	e.Code = string(c.V)
	m := bodyRe.FindStringSubmatch(strings.TrimSpace(string(c.V)))
	if m == nil {
		return
	}
	e.ID, _ = strconv.Atoi(m[2])
	for _, a := range strings.Split(m[3], ",") {
		if a = strings.TrimSpace(a); a != "" {
			e.Args = append(e.Args, a)
		}
	}
}

func fromExpr(n *hook.Node) (*peg.Expr, error) {
	kids := func() ([]*peg.Expr, error) {
		var out []*peg.Expr
		for _, k := range n.Kids {
			e, err := fromExpr(k)
			if err != nil {
				return nil, err
			}
			out = append(out, e)
		}
		return out, nil
	}
	ks, err := kids()
	if err != nil {
		return nil, err
	}
	unary := map[string]peg.Kind{"and": peg.KAnd, "not": peg.KNot, "opt": peg.KOpt, "star": peg.KStar, "plus": peg.KPlus}
	switch n.K {
	case "choice":
		return &peg.Expr{K: peg.KChoice, Kids: ks}, nil
	case "seq":
		return &peg.Expr{K: peg.KSeq, Kids: ks}, nil
	case "recover":
		return &peg.Expr{K: peg.KRecover, Kids: ks, FailLabels: n.Labels}, nil
	case "action":
		e := &peg.Expr{K: peg.KAction, Kids: ks}
		code(e, n.Code)
		return e, nil
	case "throw":
		return peg.Throw(string(n.V)), nil
	case "label":
		if n.Name == nil {
			// unnamed labeled expression (scope wrapper made by the optimizer)
			return ks[0], nil
		}
		return &peg.Expr{K: peg.KLabel, Name: string(n.Name.V), Kids: ks}, nil
	case "and", "not", "opt", "star", "plus":
		return &peg.Expr{K: unary[n.K], Kids: ks}, nil
	case "ref":
		return peg.Ref(string(n.Name.V)), nil
	case "state", "andcode", "notcode":
		e := &peg.Expr{K: map[string]peg.Kind{"state": peg.KState, "andcode": peg.KAndCode, "notcode": peg.KNotCode}[n.K]}
		code(e, n.Code)
		return e, nil
	case "lit":
		return &peg.Expr{K: peg.KLit, Val: string(n.V), IgnoreCase: n.I}, nil
	case "any":
		return peg.Any(), nil
	case "class":
		c := &peg.Class{Inverted: n.Inv, IgnoreCase: n.I}
		for _, ch := range n.Chars {
			c.Items = append(c.Items, peg.ClassItem{Lo: ch, Hi: ch})
		}
		for i := 0; i+1 < len(n.Ranges); i += 2 {
			c.Items = append(c.Items, peg.ClassItem{Lo: n.Ranges[i], Hi: n.Ranges[i+1]})
		}
		for _, u := range n.Classes {
			c.Items = append(c.Items, peg.ClassItem{Unicode: u})
		}
		return &peg.Expr{K: peg.KClass, Class: c, Src: string(n.V)}, nil
	}
	return nil, fmt.Errorf("unknown node kind %q", n.K)
}

// ParseGrammar sends text to the real front-end and converts the AST.
func (w *Worker) ParseGrammar(text string) (*peg.Grammar, error) {
	r, err := w.Srv.Call(&hook.Req{Mode: "ast", Text: []byte(text)})
	if err != nil {
		return nil, err
	}
	if r.Err != "" || r.Panic != "" {
		return nil, fmt.Errorf("front-end: %s %s", r.Err, r.Panic)
	}
	return FromAST(r.AST)
}
