// Command maporder writes overlay copies of the working tree's packages ast
// and builder in which every range statement over a map iterates in an order
// chosen by the harness (internal/vorder.Keys). The rewrite is type-directed
// (go/packages with full type information); nothing in /repo is touched.
package main

import (
	"bytes"
	"encoding/json"
	"flag"
	"fmt"
	"go/ast"
	"go/printer"
	"go/token"
	"go/types"
	"os"
	"path/filepath"
	"strconv"

	"golang.org/x/tools/go/ast/astutil"
	"golang.org/x/tools/go/packages"
)

func die(f string, a ...any) {
	fmt.Fprintf(os.Stderr, "maporder: "+f+"\n", a...)
	os.Exit(2)
}

func main() {
	repo := flag.String("repo", "/repo", "working tree")
	out := flag.String("out", "", "output directory")
	flag.Parse()
	if *out == "" {
		die("usage: maporder -out DIR")
	}
	cfg := &packages.Config{Mode: packages.NeedName | packages.NeedFiles | packages.NeedCompiledGoFiles | packages.NeedSyntax | packages.NeedTypes | packages.NeedTypesInfo | packages.NeedImports | packages.NeedDeps,
		Dir: *repo, Env: append(os.Environ(), "GOFLAGS=-mod=mod", "GOPROXY=off")}
	pkgs, err := packages.Load(cfg, "./ast", "./builder")
	if err != nil {
		die("load: %v", err)
	}
	overlay := map[string]string{}
	sites := 0
	for _, pkg := range pkgs {
		if len(pkg.Errors) > 0 {
			die("package %s: %v", pkg.PkgPath, pkg.Errors)
		}
		for i, file := range pkg.Syntax {
			path := pkg.CompiledGoFiles[i]
			n := 0
			astutil.Apply(file, func(c *astutil.Cursor) bool {
				rs, ok := c.Node().(*ast.RangeStmt)
				if !ok {
					return true
				}
				tv, ok := pkg.TypesInfo.Types[rs.X]
				if !ok {
					return true
				}
				if _, isMap := tv.Type.Underlying().(*types.Map); !isMap {
					return true
				}
				pos := pkg.Fset.Position(rs.Pos())
				site := fmt.Sprintf("%s:%d", filepath.Base(pos.Filename), pos.Line)
				n++
				sites++
				rewrite(rs, site, n)
				return true
			}, nil)
			if n == 0 {
				continue
			}
			astutil.AddImport(pkg.Fset, file, "github.com/mna/pigeon/internal/vorder")
			var buf bytes.Buffer
			if err := printer.Fprint(&buf, pkg.Fset, file); err != nil {
				die("print %s: %v", path, err)
			}
			rel, _ := filepath.Rel(*repo, path)
			dst := filepath.Join(*out, rel)
			os.MkdirAll(filepath.Dir(dst), 0o755)
			if err := os.WriteFile(dst, buf.Bytes(), 0o644); err != nil {
				die("%v", err)
			}
			overlay[path] = dst
		}
	}
	b, _ := json.MarshalIndent(map[string]any{"Replace": overlay}, "", " ")
	if err := os.WriteFile(filepath.Join(*out, "overlay.json"), b, 0o644); err != nil {
		die("%v", err)
	}
	os.WriteFile(filepath.Join(*out, "sites.txt"), []byte(strconv.Itoa(sites)+"\n"), 0o644)
	fmt.Printf("maporder: %d range-over-map sites rewritten in %d files\n", sites, len(overlay))
}

// rewrite turns   for k, v := range m { body }   into
//
//	for _, k := range vorder.Keys(site, m) { v, ok := m[k]; if !ok { continue }; body }
//
// The membership re-check keeps Go's semantics for entries deleted during
// the loop; entries added during the loop are not visited (Go permits that).
func rewrite(rs *ast.RangeStmt, site string, n int) {
	keyName := fmt.Sprintf("vkey%d", n)
	var pre []ast.Stmt
	key := ast.NewIdent(keyName)
	m := rs.X
	hasKey := rs.Key != nil && !isBlank(rs.Key)
	hasVal := rs.Value != nil && !isBlank(rs.Value)
	tok := rs.Tok
	if tok == token.ILLEGAL {
		tok = token.DEFINE
	}
	okName := ast.NewIdent(fmt.Sprintf("vok%d", n))
	valLHS := ast.Expr(ast.NewIdent("_"))
	if hasVal {
		valLHS = rs.Value
	}
	// v, ok := m[k]   (with = when the original used assignment)
	if hasVal && tok == token.ASSIGN {
		pre = append(pre, &ast.DeclStmt{Decl: &ast.GenDecl{Tok: token.VAR, Specs: []ast.Spec{&ast.ValueSpec{Names: []*ast.Ident{okName}, Type: ast.NewIdent("bool")}}}})
		pre = append(pre, &ast.AssignStmt{Lhs: []ast.Expr{valLHS, okName}, Tok: token.ASSIGN, Rhs: []ast.Expr{&ast.IndexExpr{X: m, Index: key}}})
	} else {
		pre = append(pre, &ast.AssignStmt{Lhs: []ast.Expr{valLHS, okName}, Tok: token.DEFINE, Rhs: []ast.Expr{&ast.IndexExpr{X: m, Index: key}}})
	}
	pre = append(pre, &ast.IfStmt{Cond: &ast.UnaryExpr{Op: token.NOT, X: okName}, Body: &ast.BlockStmt{List: []ast.Stmt{&ast.BranchStmt{Tok: token.CONTINUE}}}})
	if hasKey {
		pre = append([]ast.Stmt{&ast.AssignStmt{Lhs: []ast.Expr{rs.Key}, Tok: tok, Rhs: []ast.Expr{key}}, &ast.AssignStmt{Lhs: []ast.Expr{ast.NewIdent("_")}, Tok: token.ASSIGN, Rhs: []ast.Expr{rs.Key}}}, pre...)
	}
	rs.Body.List = append(pre, rs.Body.List...)
	rs.X = &ast.CallExpr{Fun: &ast.SelectorExpr{X: ast.NewIdent("vorder"), Sel: ast.NewIdent("Keys")}, Args: []ast.Expr{&ast.BasicLit{Kind: token.STRING, Value: strconv.Quote(site)}, m}}
	rs.Key = ast.NewIdent("_")
	rs.Value = key
	rs.Tok = token.DEFINE
}

func isBlank(e ast.Expr) bool {
	id, ok := e.(*ast.Ident)
	return ok && id.Name == "_"
}
