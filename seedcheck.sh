#!/bin/bash
# seedcheck.sh <patch.diff> <check-id>... : applies a seeded change to /repo, runs the
# named checks (quick tier) against it and restores /repo. Never commits.
set -u
PATCH=$(realpath "$1"); shift
cd /repo || exit 2
if [ -n "$(git status --porcelain)" ]; then echo "/repo not clean" >&2; exit 2; fi
git apply "$PATCH" || { echo "patch does not apply" >&2; exit 2; }
trap 'cd /repo && git checkout -- . && git clean -fdq -- . >/dev/null 2>&1' EXIT
LOG=$(mktemp)
for ID in "$@"; do
  (cd /verif && VERIF_DEADLINE_SECS=${SEED_SECS:-120} ./run.sh $ID quick >$LOG 2>&1); RC=$?
  echo "=== $ID on $(basename $(dirname $PATCH)): exit=$RC"
  grep -E "^VIOLATION|^KNOWN-FINDING: property|^$ID quick|harness error|total violations|^  [a-zA-Z]" $LOG | cut -c1-400 | head -${SEED_LINES:-10}
done
rm -f $LOG
