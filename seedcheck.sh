#!/bin/bash
# seedcheck.sh <patch.diff> <check-id>... : applies a seeded change to /repo, runs the
# named checks (quick tier) against it and restores /repo. Never commits.
# SEED_SNAP=<dir>: run the checks from a snapshot copy of /verif in <dir> (so that /verif
# can be edited meanwhile); the snapshot is created on first use.
set -u
PATCH=$(realpath "$1"); shift
VROOT=/verif
if [ -n "${SEED_SNAP:-}" ]; then
  VROOT=$SEED_SNAP
  if [ ! -d "$VROOT" ]; then mkdir -p "$VROOT"; rsync -a --exclude=/build --exclude=/.git --exclude=/replays /verif/ "$VROOT/"; fi
fi
cd /repo || exit 2
if [ -n "$(git status --porcelain)" ]; then echo "/repo not clean" >&2; exit 2; fi
git apply "$PATCH" 2>/dev/null || { git apply --3way "$PATCH" >/dev/null 2>&1 && git reset -q && ! grep -rlq "^<<<<<<< " --include=*.go --include=*.peg . ; } || { git reset -q --hard HEAD ; echo "patch does not apply" >&2; exit 2; }   # (3-way: a seed written before a later fix: touched the same file)
trap 'cd /repo && git checkout -- . && git clean -fdq -- . >/dev/null 2>&1' EXIT
LOG=$(mktemp)
for ID in "$@"; do
  (cd $VROOT && VERIF_DEADLINE_SECS=${SEED_SECS:-120} ./run.sh $ID quick >$LOG 2>&1); RC=$?
  echo "=== $ID on $(basename $(dirname $PATCH)): exit=$RC"
  grep -E "^VIOLATION|^KNOWN-FINDING: property|^$ID quick|harness error|total violations|^  [a-zA-Z]" $LOG | cut -c1-400 | head -${SEED_LINES:-10}
done
rm -f $LOG
# restore /repo now and rebuild what was built from the changed tree (hook server, runtime variants)
cd /repo && git checkout -- . && git clean -fdq -- . >/dev/null 2>&1
(cd $VROOT && ./run.sh setup >/dev/null 2>&1)
