#!/bin/bash
# thorough_lite.sh [secs]: runs every thorough command with a short internal deadline (default 240 s)
# to see whether the thorough families raise an alarm on the unchanged tree. Not a registered check.
cd "$(dirname "$0")"
SECS=${1:-240}
./run.sh setup || exit 2
for i in $(seq -w 1 20); do
  VERIF_DEADLINE_SECS=$SECS ./run.sh C$i thorough > /tmp/thorough_lite.C$i.log 2>&1
  echo "C$i exit=$? $(grep -c '^VIOLATION' /tmp/thorough_lite.C$i.log) violations; $(grep "^C$i thorough" /tmp/thorough_lite.C$i.log | cut -c1-160)"
done
