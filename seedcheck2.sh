#!/bin/bash
# seedcheck2.sh <patch.diff> <check-id>... : like seedcheck.sh, but leaves /repo alone:
# the change is applied to a scratch clone of /repo's HEAD and the checks run from a
# snapshot of /verif whose "/repo" references point at the clone. For evaluating seeded
# changes while /repo is busy; the registered commands always use /repo itself.
set -u
PATCH=$(realpath "$1"); shift
CLONE=${SEED_CLONE:-/tmp/repo-seed}
SNAP=${SEED_SNAP:-/tmp/verif-snap2}
if [ ! -d "$CLONE/.git" ]; then rm -rf "$CLONE"; git clone -q /repo "$CLONE"; fi
# SEED_BASE=<commit>: evaluate a seed on the tree it was written for (when a later fix rewrote the same lines)
BASE=${SEED_BASE:-$(git -C /repo rev-parse HEAD)}
git -C "$CLONE" reset -q --hard 2>/dev/null; git -C "$CLONE" fetch -q origin 2>/dev/null; git -C "$CLONE" checkout -q --detach "$BASE" 2>/dev/null || { git -C "$CLONE" fetch -q /repo HEAD && git -C "$CLONE" checkout -q --detach FETCH_HEAD; }
git -C "$CLONE" reset -q --hard ; git -C "$CLONE" clean -fdq
if [ ! -d "$SNAP" ] || [ -n "${SEED_RESNAP:-}" ]; then
  mkdir -p "$SNAP"; rsync -a --delete --exclude=/build --exclude=/.git --exclude=/replays --exclude=/evidence /verif/ "$SNAP/"
  grep -rl '/repo' "$SNAP" --include=*.go --include=*.sh --include=go.mod | xargs sed -i "s#/repo#$CLONE#g"
fi
git -C "$CLONE" apply "$PATCH" 2>/dev/null || { git -C "$CLONE" apply --3way "$PATCH" >/dev/null 2>&1 && git -C "$CLONE" reset -q && ! grep -rlq "^<<<<<<< " --include=*.go --include=*.peg "$CLONE" ; } || { git -C "$CLONE" reset -q --hard ; echo "patch does not apply" >&2; exit 2; }   # (3-way: a seed written before a later fix touched the same file)
LOG=$(mktemp)
for ID in "$@"; do
  (cd $SNAP && VERIF_DEADLINE_SECS=${SEED_SECS:-120} ./run.sh $ID quick >$LOG 2>&1); RC=$?
  echo "=== $ID on $(basename $(dirname $PATCH)): exit=$RC"
  grep -E "^VIOLATION|^KNOWN-FINDING: property|^$ID quick|harness error|total violations|^  [a-zA-Z]" $LOG | cut -c1-400 | head -${SEED_LINES:-10}
done
rm -f $LOG
git -C "$CLONE" reset -q --hard ; git -C "$CLONE" clean -fdq
