#!/usr/bin/env python3
# Regenerates MANIFEST.json from the table below (kept in one place so the
# manifest is always schema-valid).
import json, subprocess
BASELINE = json.load(open('/root/.vp/BASELINE.json'))['cmd']
checks = {}
def chk(pid, cat, text, note, technique, design):
    checks[pid] = dict(property_id=pid, quick_cmd=f"./run.sh {pid} quick", thorough_cmd=f"./run.sh {pid} thorough",
        evidence_file=f"evidence/{pid}.json", replay_cmd_template=f"./run.sh {pid} replay {{path}}", engine="vcheck",
        level_claimed=dict(category=cat, text=text, design_ref=design), level_note=note, technique=technique)

E1NOTE = "Trusted: the E1 loader (emitted grammar literal rebuilt in-process into the working tree's static code; bound to the go-compiler path by the conformance replay), the reference interpreter engine/peg, scripted probes as code blocks."
chk("C01", "exploration",
    "Bounded-exhaustive exploration: every grammar of the stated alphabet up to N nodes x every input up to L x 4 generation flag sets is built by the real front-end/builder, run on the working tree's runtime and compared with an independent reference PEG interpreter (success, consumed prefix, exact value).",
    E1NOTE, "bounded exhaustive enumeration of grammars x inputs x flag sets against a reference interpreter (explicit-state exploration of the real code)", "4.C01")


T_ENUM = "bounded exhaustive enumeration of grammars x inputs x option/flag sets, each execution of the real generated parser checked against a reference interpreter (explicit-state exploration of the implementation)"
T_DIFF = "bounded exhaustive enumeration of grammars x inputs, differential between two real builds plus reference interpreter"
chk("C02", "exploration", "Every block invocation (id, kind, line:col:offset, text, label values, order; also on abandoned alternatives) of every enumerated grammar/input/predicate script is compared with the reference interpreter's expected log; with Memoize each observed invocation must be one the reference makes.", E1NOTE, T_ENUM, "4.C02")
chk("C05", "exploration", "Every state/globalStore snapshot taken by every block of every enumerated grammar with #{} blocks and failure points is compared with a reference that threads an immutable store; pool discipline monitored.", E1NOTE, T_ENUM, "4.C05")
chk("C06", "exploration", "All 8 combinations of Memoize/Debug/Statistics on every enumerated grammar/input must reproduce the default-option result; Memoize work bounds checked; disagreements are classified against an exact model of the (node, offset) memo table.", E1NOTE, T_DIFF, "4.C06")
chk("C09", "exploration", "Unoptimized vs -optimize-grammar build (real vs real) and both vs the reference on every enumerated multi-rule grammar, entrypoint set and input: same success, prefix, action invocations and flat values.", E1NOTE, T_DIFF, "4.C09")
chk("C10", "exploration", "parser(X) vs parser(X + -optimize-parser), real vs real, over the union of the other families: same value, error list, panics and block log; state machinery present iff a #{} block exists.", E1NOTE, T_DIFF, "4.C10")
chk("C11", "exploration", "Every fault script (error / panic(error) / panic(string) per block, <=3 faulting) x Recover x filename on every enumerated skeleton: complete error list (text, order, dedupe, types, Inner identity), value and panic propagation compared with the reference.", E1NOTE, T_ENUM, "4.C11")
chk("C12", "exploration", "For every non-matching input of every enumerated block-free grammar the complete 'no match' error (farthest position, sorted de-duplicated expected set with inverted entries and EOF) is compared with the one derived from the reference's terminal-attempt list.", E1NOTE, T_ENUM, "4.C12")
chk("C15", "exploration", "All classes of <=K items x ^ x i against all 128 Basic Latin runes (+ non-ASCII, invalid byte, EOF): table parser vs general parser (real vs real) and both vs reference class semantics.", E1NOTE, T_DIFF, "4.C15")
chk("C16", "exploration", "Every budget n in 1..c+1 for every enumerated grammar (incl. non-terminating ones), input and option set: returns, evaluates <= n expressions, reports the budget error iff exhausted, otherwise equals the unbounded run.", E1NOTE + " Tick cap stands in for 'does not return'.", "bounded exhaustive enumeration of grammars x inputs x option sets x all budgets on the real runtime", "4.C16")
chk("C17", "exploration", "All byte strings up to length L over 10 bytes covering every malformed-UTF-8 shape x enumerated grammars x AllowInvalidUTF8: values/offsets exact, set of 'invalid encoding' error positions equals the set of invalid bytes advanced onto (independent RFC 3629 decoder).", E1NOTE, T_ENUM, "4.C17")


HOOKNOTE = "Trusted: the hook server (/repo/verif_hook.go, tag verif) calling the working tree's ParseReader / ast.Optimize / builder / main(); the reference AST printer engine/peg."
chk("C03", "exploration", "Every reference AST up to N nodes (all expression kinds) in the canonical spelling, with every single spelling deviation (15 dimensions) and every pair for tiny ASTs, is parsed by the real front-end; the AST dump incl. the position of every node must equal the AST the text denotes, and print->parse round-trips.", HOOKNOTE, "bounded exhaustive enumeration of ASTs x spelling deviations (deviation bound 1-2) against the real front-end", "4.C03")
chk("C04", "exploration", "Naming, scoping and Unicode-class families: every emitted text is checked structurally (one method per block, no duplicate names/parameters, parameters = labels of the block's scope), and a systematic batch x flag combinations goes through the real main(), gofmt, go build, go vet and a binary that initialises every package and parses once.", HOOKNOTE + " The Go toolchain judges 'compiles and vets'.", "bounded exhaustive enumeration of grammars x flag sets; emitted code judged by go/parser structural checks and the real go build / go vet", "4.C04")
chk("C07", "exploration", "Every rule-reference graph of the stated family (1-3 rules, every nullable / non-nullable / lookahead prefix before every kind of reference) is analysed by the real PrepareGrammar and compared with ground truth inside the bounds (reference interpreter re-entry witness over all short inputs) and with an independent static analysis; misses are confirmed on the generated parser.", HOOKNOTE, "bounded exhaustive enumeration of grammars; verdict of the real analysis vs dynamic witness search over all short inputs", "4.C07")
chk("C08", "exploration", "Direct left-recursive rules over all tails/bases of the alphabet, expr/term/factor towers and single-cycle indirect pairs x all inputs up to L x Memoize x -optimize-parser are compared with the seed-growing denotation (= base followed by greedily repeated tails, left-nested): value, prefix, errors, final store, termination.", E1NOTE, T_ENUM, "4.C08")
chk("C13", "exploration", "The real main() is driven with every valid text of a 3-node AST family x all 32 flag combinations, every single-token edit of a 40-text corpus and EVERY short byte string: terminates, no escaping panic, exit status consistent with output and diagnostics, rejected text never exits 0; a sample is replayed through the real binary.", HOOKNOTE, "bounded exhaustive enumeration of byte strings / token edits / valid texts x flag sets through the real main()", "4.C13")
chk("C14", "exploration", "All expressions with throws and recovery operators up to N nodes (nesting, shared labels, throws in called rules, repetitions, predicates, recovery expressions that fail or throw again) x all inputs up to L are compared with a reference interpreter that keeps an explicit dynamic handler stack.", E1NOTE, T_ENUM, "4.C14")
chk("C20", "exploration", "(a) every text of the bootstrap-subset AST family (plus single spelling deviations) that the hand-written bootstrap front-end accepts must be accepted by the generated front-end with a structurally identical AST; (b) make -B all in a scratch copy re-runs the three bootstrap stages and regenerates every artifact, all must be byte-identical.", HOOKNOTE + " bootstrap.Parser linked as a library; GNU make runs the Makefile's own recipes.", "bounded exhaustive enumeration of texts (two real front-ends compared) + complete regeneration of the finite artifact set", "4.C20")


chk("C18", "model_checking", "Stateless model checking of the real runtime under a controlled scheduler: 2-3 real goroutines calling Parse on one loaded grammar, scheduling points at every pool Get/Put and block call (mode A, unbounded with state-key pruning, environment choice of what Get returns) and additionally at every parser-method entry / loop iteration (mode B, preemption bound 1, thorough 2); every execution is checked for isolation (observation == solo observation), pool discipline and an unchanged grammar value.", E1NOTE + " Memory-model effects between hooked operations are only covered by the free-running -race pass (sampling, supporting evidence).", "stateless model checking: controlled scheduler + DFS over schedules with preemption bound / state-key pruning on the real code; separate free-running race-detector pass", "4.C18")
chk("C19", "model_checking", "Nondeterminism exploration of Go map iteration order on the real ast/builder code (type-directed overlay rewrite of all 24 range-over-map sites): every execution with <= 1 order deviation (<= 2 for small cases; all n! orders per site up to 4 keys) must give the same analysis result and emitted bytes; every ordered pair/triple of 6 requests in one process must answer like a fresh process; outcomes are bound to the uninstrumented binary.", HOOKNOTE + " Every permutation of a map's keys is taken to be a legal behaviour of the real implementation.", "explicit exploration of the nondeterministic choice space (map iteration orders, deviation bound 1-2) on the real code via source overlay; request-history enumeration", "4.C19")

ALL = [f"C{i:02d}" for i in range(1, 21)]
na = [dict(property_id=p, reason="check not built yet in this revision (planned in DESIGN.md section 4)") for p in ALL if p not in checks]
hook_commits = subprocess.run(['git','-C','/repo','log','--format=%H','--grep=^verif hook'],capture_output=True,text=True).stdout.split()
fix_commits = subprocess.run(['git','-C','/repo','log','--format=%h %s','--grep=^fix:'],capture_output=True,text=True).stdout.strip().split('\n')
m = dict(version=1,
    setup_cmd="./run.sh setup",
    hooks=dict(guard="verif", enable="go build -tags verif -o build/bin/pigeon-verif /repo  (then PIGEON_VERIF_SERVE=1 serves requests)",
               baseline_off_cmd=BASELINE, source_commits=hook_commits, add_only=True),
    engines=[
      dict(name="E1 runtime loader", path="engine/rtgen engine/golit engine/rtapi engine/core build/rt", serves_properties=sorted(checks), kind_free_text="compiles the 16 static-code variants of the working tree once and loads builder-emitted grammar literals in-process"),
      dict(name="E2 hook server", path="/repo/verif_hook.go engine/hook", serves_properties=sorted(checks), kind_free_text="real front-end / optimizer / builder / main() behind a request protocol"),
      dict(name="reference model", path="engine/peg", serves_properties=sorted(checks), kind_free_text="own AST, printer, enumerators and reference PEG interpreter"),
    ],
    checks=[checks[k] for k in sorted(checks)],
    not_applicable=na,
    notes="All checks are exhaustive enumerations of explicitly bounded spaces; see DESIGN.md. Repairs of genuine defects committed to /repo: " + "; ".join(fix_commits))
json.dump(m, open('MANIFEST.json','w'), indent=1)
print("checks:", sorted(checks), "na:", len(na))
