#!/usr/bin/env python3
# Regenerates MANIFEST.json from the table below (kept in one place so the
# manifest is always schema-valid).
import json, subprocess
BASELINE = json.load(open('/root/.vp/BASELINE.json'))['cmd']
checks = {}
def chk(pid, cat, text, note, technique, design):
    checks[pid] = dict(property_id=pid, quick_cmd=f"./run.sh {pid} quick", thorough_cmd=f"./run.sh {pid} thorough",
        evidence_file=f"evidence/{pid}.json", replay_cmd_template=f"./run.sh {pid} replay {{path}}", engine="vcheck",
        level_claimed=dict(category=cat, text=text, design_ref=design), level_note=note, technique=technique)

E1NOTE = "Trusted: the E1 loader (emitted grammar literal rebuilt in-process into the working tree's static code; bound to the go-compiler path by the conformance replay), the reference interpreter engine/peg, scripted probes as code blocks."
chk("C01", "exploration",
    "Bounded-exhaustive exploration: every grammar of the stated alphabet up to N nodes x every input up to L x 4 generation flag sets is built by the real front-end/builder, run on the working tree's runtime and compared with an independent reference PEG interpreter (success, consumed prefix, exact value).",
    E1NOTE, "bounded exhaustive enumeration of grammars x inputs x flag sets against a reference interpreter (explicit-state exploration of the real code)", "4.C01")

ALL = [f"C{i:02d}" for i in range(1, 21)]
na = [dict(property_id=p, reason="check not built yet in this revision (planned in DESIGN.md section 4)") for p in ALL if p not in checks]
hook_commits = subprocess.run(['git','-C','/repo','log','--format=%H','--grep=^verif hook'],capture_output=True,text=True).stdout.split()
m = dict(version=1,
    setup_cmd="./run.sh setup",
    hooks=dict(guard="verif", enable="go build -tags verif -o build/bin/pigeon-verif /repo  (then PIGEON_VERIF_SERVE=1 serves requests)",
               baseline_off_cmd=BASELINE, source_commits=hook_commits, add_only=True),
    engines=[
      dict(name="E1 runtime loader", path="engine/rtgen engine/golit engine/rtapi engine/core build/rt", serves_properties=sorted(checks), kind_free_text="compiles the 16 static-code variants of the working tree once and loads builder-emitted grammar literals in-process"),
      dict(name="E2 hook server", path="/repo/verif_hook.go engine/hook", serves_properties=sorted(checks), kind_free_text="real front-end / optimizer / builder / main() behind a request protocol"),
      dict(name="reference model", path="engine/peg", serves_properties=sorted(checks), kind_free_text="own AST, printer, enumerators and reference PEG interpreter"),
    ],
    checks=[checks[k] for k in sorted(checks)],
    not_applicable=na,
    notes="All checks are exhaustive enumerations of explicitly bounded spaces; see DESIGN.md.")
json.dump(m, open('MANIFEST.json','w'), indent=1)
print("checks:", sorted(checks), "na:", len(na))
