#!/bin/bash
# regen_repo.sh: after a change of builder/static_code.go (or anything the checked-in
# generated files depend on), re-run the Makefile's three bootstrap stages in a scratch
# copy and copy every regenerated file that differs back into /repo.
set -eu
export GOFLAGS=-mod=mod GOPROXY=off
D=$(mktemp -d)
trap 'rm -rf "$D"' EXIT
rsync -a --exclude=.git --exclude=/bin /repo/ "$D/"
(cd "$D" && make -B all > "$D/make.log" 2>&1) || { tail -20 "$D/make.log"; exit 1; }
cd "$D"
n=0
for f in $(find . -name '*.go' -not -path './bin/*'); do
  if ! cmp -s "$f" "/repo/$f"; then cp "$f" "/repo/$f"; n=$((n+1)); fi
done
echo "regenerated files copied back: $n"
