#!/bin/bash
# confirm_seed.sh <agent-worktree> <seed-id> : takes the working-tree diff and demo/ of a
# sub-agent's scratch worktree, and confirms in a FRESH worktree of /repo HEAD that the change
# compiles, passes the repository's tests, and that the demonstration exits 1 with the change
# and 0 without it. On success the seed is stored as /verif/seeded/<seed-id>/{patch.diff,demo/}.
set -u
WT=$1; ID=$2
export GOFLAGS=-mod=mod GOPROXY=off
OUT=/verif/seeded/$ID
SCR=$(mktemp -d /tmp/confirm.XXXXXX)
trap 'git -C /repo worktree remove --force $SCR/mod >/dev/null 2>&1; git -C /repo worktree remove --force $SCR/pristine >/dev/null 2>&1; rm -rf $SCR' EXIT
(cd $WT && git checkout -q -- go.sum go.mod 2>/dev/null; git add -N . ':!demo' 2>/dev/null; git diff -- . ':!demo' ) > $SCR/patch.diff
if [ ! -s $SCR/patch.diff ]; then echo "$ID: EMPTY DIFF"; exit 1; fi
git -C /repo worktree add -q --detach $SCR/mod HEAD || exit 2
git -C /repo worktree add -q --detach $SCR/pristine HEAD || exit 2
git -C $SCR/mod apply $SCR/patch.diff || { echo "$ID: patch does not apply to HEAD"; exit 1; }
(cd $SCR/mod && go build ./... && go test -vet=off -count=1 ./... ) > $SCR/test.log 2>&1
if [ $? -ne 0 ] || grep -q "^FAIL\|^--- FAIL" $SCR/test.log; then echo "$ID: TESTS FAIL"; grep "FAIL" $SCR/test.log | head -5; exit 1; fi
cp -r $WT/demo $SCR/demo
chmod +x $SCR/demo/run.sh
(cd $SCR/demo && timeout 900 ./run.sh $SCR/mod) > $SCR/demo_mod.log 2>&1; RM=$?
(cd $SCR/demo && timeout 900 ./run.sh $SCR/pristine) > $SCR/demo_pri.log 2>&1; RP=$?
echo "$ID: tests ok; demo modified=$RM pristine=$RP; patch $(wc -l < $SCR/patch.diff) lines, files: $(grep '^+++ b/' $SCR/patch.diff | sed 's#+++ b/##' | tr '\n' ' ')"
if [ $RM -ne 1 ] || [ $RP -ne 0 ]; then tail -5 $SCR/demo_mod.log; tail -5 $SCR/demo_pri.log; exit 1; fi
rm -rf $OUT; mkdir -p $OUT
cp $SCR/patch.diff $OUT/patch.diff
cp -r $SCR/demo $OUT/demo
exit 0
