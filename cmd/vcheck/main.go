// Command vcheck runs the property checks. See DESIGN.md.
package main

import (
	"fmt"
	"os"

	_ "verif/build/rt/all"
)

func main() {
	if len(os.Args) < 2 {
		fmt.Fprintln(os.Stderr, "usage: vcheck <property|smoke|worker> [tier]")
		os.Exit(2)
	}
	switch os.Args[1] {
	case "smoke":
		os.Exit(smoke())
	case "race-pass":
		os.Exit(raceMain())
	case "case":
		os.Exit(caseMain(os.Args[2:]))
	case "worker":
		os.Exit(workerMain(os.Args[2:]))
	}
	tier := "quick"
	if len(os.Args) > 2 {
		tier = os.Args[2]
	}
	os.Exit(runCheck(os.Args[1], tier))
}

func itoa(i int) string { return fmt.Sprint(i) }
