package main

import (
	"strconv"
	"bytes"
	"fmt"
	"go/parser"
	"go/token"
	"os"
	"os/exec"
	"path/filepath"
	"strings"

	"verif/engine/core"
	"verif/engine/hook"
	"verif/engine/peg"
)

func init() {
	register(&Check{
		ID: "C13", Level: "exploration", QuickSecs: 200, ThoroughSecs: 1800,
		Rule:        "inputs to the real main() (hook main mode; stdin/file and stdout/-o alternate): (a) every text printed from the reference ASTs over ALL expression kinds (incl. throw, recovery, code predicates, state blocks, undefined and unused rules) up to 3 nodes x all 32 combinations of -optimize-parser -optimize-grammar -optimize-basic-latin -support-left-recursion -cache, plus -x, -nolint and valid/invalid -alternate-entrypoints; (e) EVERY class text of <= 3 (thorough 4) pieces from plain runes, - ^, escapes and Unicode classes (trailing and doubled hyphens, descending ranges included), with and without i, alone and next to a mergeable class x 4 flag sets; (g) all pairs of two-alternative bodies over 8 alternatives with self and mutual references (SCCs with and without a leader) x {-, -support-left-recursion, +-optimize-grammar}; (f) every reference graph over four rules with leaf, chain and self-recursive bodies x 3 flag sets with -optimize-grammar; (d) 3-rule reference graphs with mutually dependent nullability (A <- w(B) / w(C) / end, B and C aliases of A; 3750 grammars x 4 flag sets) through the analysis and builder; (b) every single-token edit (delete, duplicate, replace by each of 34 tokens) of a 40-text corpus covering the whole syntax x 2 flag sets (thorough 4); (c) EVERY byte string up to length 2 over all 256 bytes and up to length 3 over the 22 grammar-significant bytes (thorough: 3 and 4) x 4 flag sets. Oracle: main() returns (10 s watchdog, re-run before believed), no Go panic escapes, exit 0 => stdout is a complete Go file (go/parser accepts it) and stderr is empty, exit != 0 => a diagnostic on stderr, a text the front-end rejects never exits 0, -x never writes a parser. A stratified subset is replayed through the real pigeon binary (same exit status, no goroutine trace). Non-trivial = texts that are accepted (exit 0) or rejected by the builder rather than the front-end. Plus (f) a case sweep (every cased rune as i-literal, inside a longer i-literal, in i-classes; 3 flag sets), (g) dense first-call graphs (n rules all beginning with all n rules, n <= 8; thorough n <= 11: finding D36), (i) nested groups (a literal inside 1..10 pairs of parentheses, thorough 12 and 18: finding D41; four times the depth with -cache); every 10th main-mode case writes to an -o target that already exists with 400 KB of stale content.",
		Assumptions: []string{"exit() mocked inside the hook server; a sample is replayed through the real binary", "no wall-clock oracle: only a hang >10 s is reported"},
		Run:         runC13,
	})
}

type c13ctx struct {
	c     *ShardCtx
	n     int
	plain string // path of the real binary
}

// staleOut: 400 KB that are not Go.
var staleOut = bytes.Repeat([]byte("@@ stale output of an earlier run @@\n"), 10000)

func (x *c13ctx) call(text []byte, argv []string, note string) {
	c := x.c
	x.n++
	req := &hook.Req{Mode: "main", Text: text, Argv: argv, UseFile: x.n%3 == 1, UseOut: x.n%5 == 2}
	if req.UseOut && x.n%10 == 2 {
		// the -o target exists already and is LONGER than anything the tool writes (an earlier
		// run with a bigger grammar): what is left behind must still be the complete new parser
		req.PreOut = staleOut
	}
	r, err := c.W.Srv.Call(req)
	c.Res.Evaluations++
	viol := func(desc string) {
		known := ""
		if strings.HasPrefix(note, "dense first-call graph n=") && (strings.Contains(desc, "does not terminate") || strings.Contains(desc, "died")) {
			// finding D36: the cycle enumeration of the left-recursion analysis is factorial in the
			// size of a strongly connected component (matcher: this family, 9 or more rules)
			if n, _ := strconv.Atoi(strings.TrimPrefix(note, "dense first-call graph n=")); n >= 9 { // (9 rules: 2.3 s on an idle machine, beyond the watchdog on a loaded one)
				known = "dense-cycle-enumeration"
			}
		}
		if strings.HasPrefix(note, "nested groups depth=") && strings.Contains(desc, "does not terminate") {
			// finding D41: the front-end backtracks over every nesting level of parentheses (about
			// twice the time per level without -cache); matcher: this family, depth 16 or more, no -cache
			if d, _ := strconv.Atoi(strings.TrimPrefix(note, "nested groups depth=")); d >= 16 && !strings.Contains(strings.Join(argv, " "), "-cache") {
				known = "nested-group-backtracking"
			}
		}
		c.Report(Violation{Desc: desc, Grammar: string(text), InputHex: hexOf(text), Gen: strings.Join(argv, " "), Opts: note}, known)
	}
	if err == hook.ErrDied {
		viol("pigeon died (fatal error / os.Exit inside main) on this input")
		return
	}
	if err != nil {
		panic(&core.HarnessError{Msg: err.Error()})
	}
	if r.Hung {
		// believe a hang only if it repeats
		r2, _ := c.W.Srv.Call(req)
		if r2 != nil && r2.Hung {
			viol("pigeon does not terminate within 10 s")
		}
		return
	}
	out := r.Stdout
	if req.UseOut {
		out = r.OutFile
	}
	noBuild := false
	for _, a := range argv {
		if a == "-x" {
			noBuild = true
		}
	}
	switch {
	case r.Panic != "":
		viol("Go panic escapes main(): " + r.Panic)
	case r.Exit == 0 && len(r.Stderr) > 0:
		viol("exit status 0 with a diagnostic on stderr: " + string(r.Stderr))
	case r.Exit != 0 && len(bytes.TrimSpace(r.Stderr)) == 0:
		viol(fmt.Sprintf("exit status %d without a diagnostic", r.Exit))
	case r.Exit == 0 && noBuild && len(out) > 0 && !bytes.Equal(out, req.PreOut):
		viol("-x wrote a parser")
	case r.Exit == 0 && !noBuild:
		c.Res.Nontrivial++
		fset := token.NewFileSet()
		_, perr := parser.ParseFile(fset, "out.go", out, parser.SkipObjectResolution)
		if perr != nil {
			// a grammar without a package clause in its initializer yields a
			// file body (documented); it must still be complete Go declarations
			_, perr = parser.ParseFile(fset, "out.go", append([]byte("package p\n"), out...), parser.SkipObjectResolution)
		}
		if perr != nil {
			viol("exit status 0 but the output is not a complete Go file: " + perr.Error())
		} else if !bytes.Contains(out, []byte("func (p *parser) parseSeqExpr(")) {
			viol("exit status 0 but the output lacks the runtime")
		}
	case r.Exit == 5:
		c.Res.Nontrivial++
	}
	c.Res.Counters[fmt.Sprintf("exit_%d", r.Exit)]++
	if x.n%2000 == 7 {
		c.Sample(map[string]any{"text": string(text), "argv": argv, "exit": r.Exit, "stderr": tail(string(r.Stderr), 120)})
	}
	// rejected by the front-end => never exit 0
	if r.Exit == 0 && x.n%50 == 3 {
		if a, err := c.W.Srv.Call(&hook.Req{Mode: "ast", Text: text}); err == nil && a.Err != "" {
			viol("front-end rejects the text but main() exits 0")
		}
	}
	// stratified replay through the real binary
	if x.n%4001 == 11 && x.plain != "" {
		cmd := exec.Command(x.plain, argv...)
		cmd.Stdin = bytes.NewReader(text)
		var so, se bytes.Buffer
		cmd.Stdout, cmd.Stderr = &so, &se
		code := 0
		if err := cmd.Run(); err != nil {
			if ee, ok := err.(*exec.ExitError); ok {
				code = ee.ExitCode()
			} else {
				panic(&core.HarnessError{Msg: err.Error()})
			}
		}
		c.Res.Conformance++
		if bytes.Contains(se.Bytes(), []byte("goroutine ")) {
			viol("real binary prints a Go panic trace")
		}
		if !req.UseFile && code != r.Exit {
			panic(&core.HarnessError{Msg: fmt.Sprintf("hook main mode exit %d, real binary exit %d for %q %v", r.Exit, code, text, argv)})
		}
	}
}

// build runs Parse / Optimize / BuildParser with flag combination m and
// checks that no panic escapes and an accepted grammar yields output.
func (x *c13ctx) build(text []byte, m int) {
	c := x.c
	req := &hook.Req{Mode: "build", Text: text, Optimize: m&1 != 0, OptGrammar: m&2 != 0, BasicLatin: m&4 != 0, LeftRec: m&8 != 0, Cache: m&16 != 0}
	r, err := c.W.Srv.Call(req)
	c.Res.Evaluations++
	desc := ""
	switch {
	case err == hook.ErrDied:
		desc = "pigeon died (fatal error) while building"
	case err != nil:
		panic(&core.HarnessError{Msg: err.Error()})
	case r.Hung:
		desc = "front-end / optimizer / builder does not terminate within 10 s"
	case r.Panic != "":
		desc = "Go panic in front-end / optimizer / builder: " + r.Panic
	case r.Err == "" && len(r.Src) == 0:
		desc = "grammar accepted but nothing emitted"
	}
	if r != nil && r.Err == "" && r.Panic == "" {
		c.Res.Nontrivial++
	}
	if desc != "" {
		c.Report(Violation{Desc: desc, Grammar: string(text), InputHex: hexOf(text), Gen: fmt.Sprintf("flag combination %05b (cache,left-rec,basic-latin,opt-grammar,opt-parser)", m)}, "")
	}
}

func flagSets32() [][]string {
	names := []string{"-optimize-parser", "-optimize-grammar", "-optimize-basic-latin", "-support-left-recursion", "-cache"}
	var out [][]string
	for m := 0; m < 32; m++ {
		var a []string
		for i, n := range names {
			if m&(1<<i) != 0 {
				a = append(a, n)
			}
		}
		out = append(out, a)
	}
	return out
}

var flagSets4 = [][]string{nil, {"-x"}, {"-optimize-grammar"}, {"-optimize-parser", "-optimize-grammar", "-optimize-basic-latin", "-support-left-recursion", "-cache", "-nolint"}}

func c13Corpus() []string {
	return []string{
		"{\npackage p\n}\nA <- 'a'\n", "A = 'a' B\nB = \"b\"i / [a-z]+\n", "A ← x:B* { return x, nil }\nB ⟵ . !.\n",
		"A \"disp\" <- &'a' !'b' 'c'? ;B <- `raw` ;", "A <- ( 'a' / 'b' )+ // c\n", "A <- &{ return true, nil } #{ return nil } !{ return false, nil } 'a'\n",
		"A <- 'a' %{l} //{l} 'b'\n", "A <- B //{l, m} C\nB <- %{l}\nC <- .\n", "A <- [\\pL_] [^\\p{Latin}\\]]i [\\x41-\\u0042]\n", "/* c */ A <- 'a' /* d */ 'b' // e\n",
		"A <- \"\\n\\t\\\\\\\"\\x41\\101\\u00e9\\U000000e9\"\n", "A <- A 'a' / 'b'\n", "A <- B\nB <- A\n", "A <- x:'a' y:x:'b' { return nil, nil }\n", "A <- 'a'\nA <- 'b'\n",
		"A <- B 'a'\n", "{ package p; var x = \"}\" }\nA <- 'a' { if true { return \"{\", nil }; return `}`, nil }\n", "A <- ''\n", "A <- 'ab'\n", "A <- [z-a]\n",
		"A <- (('a'))\n", "A <- 'a'i \"b\"i `c`i [d]i\n", "A <- .* !.\n", "A<-'a';B<-A\n", "A <- 'a' / \n 'b'\n",
		"A <- x:('a' / 'b' 'c') { return x, nil } / y:. { return y, nil }\n", "A <- &B !C\nB <- 'b'\nC <- 'c'\n", "func <- 'a'\n", "A <- func:'a' { return nil, nil }\n", "A <- 'a' {\n",
		"A <- 'a' //{ 'b'\n", "A <- %{\n", "A <- [a\n", "A <- \"a\n", "A <- 'a\n", "A <- /* x\n", "A <- 'a' B:\n", "A <- \\pL\n", "A <- [\\p{Nope}]\n", "\xff\xfe A <- 'a'\n",
	}
}

func tokenize(s string) []string {
	// a coarse tokenizer is enough: edits only need to produce near-valid texts
	var toks []string
	cur := ""
	flush := func() {
		if cur != "" {
			toks = append(toks, cur)
			cur = ""
		}
	}
	for _, r := range s {
		switch {
		case r == ' ' || r == '\n' || r == '\t':
			flush()
			toks = append(toks, string(r))
		case strings.ContainsRune("()[]{}'\"`/*!&#%:;=<-+?.,\\^", r):
			flush()
			toks = append(toks, string(r))
		default:
			cur += string(r)
		}
	}
	flush()
	return toks
}

func runC13(c *ShardCtx) {
	x := &c13ctx{c: c, plain: filepath.Join(core.Root(), "build", "bin", "pigeon")}
	if _, err := os.Stat(x.plain); err != nil {
		x.plain = ""
	}
	c.W.Srv.Timeout = 10e9
	idx := 0
	// (f) case sweep: EVERY rune with a case variant as a case-insensitive literal (alone, inside a
	// longer literal) and as member of a case-insensitive class, 16 runes per grammar, built with no
	// flag and with all flags (what the builder computes for such terminals - lower-cased values,
	// folded ranges, lookup tables - must not crash on any of them)
	{
		cased := casedRunes()
		for at := 0; at < len(cased); at += 16 {
			idx++
			if !c.Mine(idx) {
				continue
			}
			if c.Expired("family f") {
				return
			}
			end := at + 16
			if end > len(cased) {
				end = len(cased)
			}
			var rules []*peg.Rule
			for k, r := range cased[at:end] {
				rules = append(rules, &peg.Rule{Name: "L" + itoa(k), Expr: peg.Choice(peg.LitI(string(r)), peg.LitI("x"+string(r)+string(r)+"y"), peg.Cls(false, true, string(r)), peg.Cls(true, true, string(r), "a-"+string(r)))})
			}
			text := []byte(peg.Print(&peg.Grammar{Rules: rules}, &peg.PrintOpts{Package: "p"}))
			c.Res.Grammars++
			x.build(text, 0)
			x.build(text, 31)
			x.build(text, 4)
		}
	}
	// (g) dense first-call graphs: n rules that all begin with all n rules (one strongly connected
	// component with every possible cycle); the left-recursion analysis runs with and without the flag
	{
		top := 8 // (0.4 s; 9 rules take 2.3 s, 10 rules 30 s: finding D36)
		if c.Thorough() {
			top = 11
		}
		for n := 2; n <= top; n++ {
			idx++
			if !c.Mine(idx) {
				continue
			}
			var sb strings.Builder
			for i := 0; i < n; i++ {
				fmt.Fprintf(&sb, "R%d <-", i)
				for j := 0; j < n; j++ {
					fmt.Fprintf(&sb, " R%d 'x' /", j)
				}
				sb.WriteString(" 'y'\n")
			}
			c.Res.Grammars++
			x.call([]byte(sb.String()), nil, fmt.Sprintf("dense first-call graph n=%d", n))
			x.call([]byte(sb.String()), []string{"-support-left-recursion"}, fmt.Sprintf("dense first-call graph n=%d", n))
		}
	}
	// (i) nested groups: a literal inside d pairs of parentheses (valid, a few dozen bytes); with
	// -cache the front-end is linear, without it the time doubles per level (depth 12: 0.6 s, 14:
	// 2.5 s, 18: 40 s - finding D41, thorough tier only); depth 40 with -cache must be instant
	{
		depths := []int{1, 2, 4, 8, 10}
		if c.Thorough() {
			depths = append(depths, 12, 18)
		}
		for _, d := range depths {
			idx++
			if !c.Mine(idx) {
				continue
			}
			text := []byte("A <- " + strings.Repeat("(", d) + "'a'" + strings.Repeat(")", d) + "\n")
			c.Res.Grammars++
			x.call(text, nil, fmt.Sprintf("nested groups depth=%d", d))
			x.call([]byte("A <- "+strings.Repeat("(", 4*d)+"'a'"+strings.Repeat(")", 4*d)+"\n"), []string{"-cache"}, fmt.Sprintf("nested groups depth=%d", 4*d))
		}
	}
	// (h) code block texts through the BUILDER: every body of <= 2 items of C03's code block lexer
	// family (empty, blank, a lone newline, braces in strings / runes / comments, nested groups) as
	// action, predicate and state block; no flag and all flags
	for bi, body := range codeBodies(2) {
		idx++
		if !c.Mine(idx) {
			continue
		}
		if c.Expired("family h") {
			return
		}
		if bi%50 == 0 {
			c.Res.Grammars++
		}
		text := []byte("{\npackage p\n}\nA <- \"a\" " + body + " &" + body + " #" + body + " B\nB <- !" + body + " \"b\"\n")
		x.build(text, 0)
		x.build(text, 31)
	}
	// (a) valid texts x flag sets
	leaves := []*peg.Expr{peg.Lit("a"), peg.LitI("b"), peg.Cls(false, true, "a-c", `\pL`), peg.Cls(true, false, "a"), peg.Cls(false, false), peg.Cls(false, false, "a-é"), peg.Cls(true, true, "!-ÿ", "Ā-Ȁ"), peg.Cls(false, true, "K", `\p{Lu}`), peg.Any(), peg.Ref("B"), peg.Ref("A"), peg.Ref("Undefined"),
		peg.AndCode(1), peg.NotCode(2), peg.StateCode(3), peg.Throw("l"), peg.Lit("")}
	en := peg.NewEnumerator(peg.Alphabet{Leaves: leaves, Unary: allUnary, Seq: true, Choice: true, MaxArity: 2, NestSame: true, Recover: [][]string{{"l"}, {"l", "m"}}})
	fs32 := flagSets32()
	n := 3
	for size := 1; size <= n; size++ {
		for _, body := range en.Size(size) {
			idx++
			if !c.Mine(idx) {
				continue
			}
			if c.Expired("family a size " + itoa(size)) {
				return
			}
			c.Res.Grammars++
			for v := 0; v < 2; v++ {
				e := body.Clone()
				if v == 1 {
					e = peg.Action(7, peg.Seq(peg.Label("x", e), peg.Label("y", peg.Ref("B"))), "x", "y")
				}
				g := &peg.Grammar{Rules: []*peg.Rule{{Name: "A", Expr: e}, {Name: "B", Display: "the B", Expr: peg.Choice(peg.Lit("b"), peg.Lit("c"))}, {Name: "Unused", Expr: peg.Seq(peg.Lit("u"), peg.Lit("v"))}}}
				text := []byte(peg.Print(g, &peg.PrintOpts{Package: "p"}))
				// all 32 flag combinations through the front-end/optimizer/builder (hook
				// build mode: the same calls main() makes, without goimports); the full
				// main() for the extreme flag sets
				for m := 0; m < 32; m++ {
					x.build(text, m)
				}
				for _, fl := range [][]string{nil, fs32[31]} {
					if size <= 2 || (idx/16)%8 == 0 {
						x.call(text, fl, "family a")
					}
				}
				if size <= 2 {
					x.call(text, []string{"-x"}, "family a")
					x.call(text, []string{"-nolint", "-receiver-name", "cur"}, "family a")
					x.call(text, []string{"-optimize-grammar", "-alternate-entrypoints", "B,Unused"}, "family a")
					x.call(text, []string{"-alternate-entrypoints", "B,Nope"}, "family a")
					x.call(text, []string{"-optimize-grammar", "-alternate-entrypoints", ",B,"}, "family a")
				}
			}
		}
	}
	// (e) class texts: every class of <= K pieces (quick 3, thorough 4) from plain runes, '-', '^',
	// escapes and Unicode classes (valid or not: trailing and doubled hyphens, descending ranges),
	// with and without i, alone / next to a class the optimizer merges it with, x 4 flag sets
	{
		k := 3
		if c.Thorough() {
			k = 4
		}
		for _, src := range classTexts(k) {
			idx++
			if !c.Mine(idx) {
				continue
			}
			if c.Expired("family e") {
				return
			}
			c.Res.Grammars++
			for _, suffix := range []string{"", "i"} {
				for _, shape := range []string{"A <- %s 'z'\n", "A <- %s / [b-d] / 'x'\n"} {
					text := []byte("{\npackage p\n}\n" + fmt.Sprintf(shape, src+suffix))
					for _, m := range []int{0, 2, 4, 31} {
						x.build(text, m)
					}
					if idx%64 == 0 {
						x.call(text, fs32[6], "family e")
					}
				}
			}
		}
	}
	// (f) rule graphs: every reference graph over four rules with leaf, chain and (self-)recursive
	// bodies (C09's rule graph family) through the optimizer and the builder
	for _, ga := range ruleGraphFamily(c.Thorough()) {
		idx++
		if !c.Mine(idx) {
			continue
		}
		if c.Expired("family f") {
			return
		}
		text := []byte(peg.Print(ga.g, &peg.PrintOpts{Package: "p"}))
		c.Res.Grammars++
		for _, m := range []int{2, 3, 31} {
			x.build(text, m)
		}
	}
	// (g) two rules, each alternative from {A, B, A 'a', B 'a', A B 'z', B A 'z', "", 'a'}: every pair of
	// two-alternative bodies (self loops, mutual recursion, SCCs without a leader) through the
	// left-recursion analysis with and without -support-left-recursion
	{
		lit := peg.Lit
		alts := func() []*peg.Expr {
			return []*peg.Expr{peg.Ref("A"), peg.Ref("B"), peg.Seq(peg.Ref("A"), lit("a")), peg.Seq(peg.Ref("B"), lit("a")), peg.Seq(peg.Ref("A"), peg.Ref("B"), lit("z")), peg.Seq(peg.Ref("B"), peg.Ref("A"), lit("z")), lit(""), lit("a")}
		}
		n := len(alts())
		cnt := 0
		for i := 0; i < n; i++ {
			for j := 0; j < n; j++ {
				for k := 0; k < n; k++ {
					for l := 0; l < n; l++ {
						cnt++
						if !c.Thorough() && cnt%3 != 0 {
							continue
						}
						idx++
						if !c.Mine(idx) {
							continue
						}
						if c.Expired("family g") {
							return
						}
						a := alts()
						b := alts()
						g := &peg.Grammar{Rules: []*peg.Rule{{Name: "A", Expr: peg.Choice(a[i], a[j], lit("q"))}, {Name: "B", Expr: peg.Choice(b[k], b[l], lit("r"))}}}
						text := []byte(peg.Print(g, &peg.PrintOpts{Package: "p"}))
						c.Res.Grammars++
						for _, m := range []int{0, 8, 10} {
							x.build(text, m)
						}
					}
				}
			}
		}
	}
	// (d) rule-reference graphs whose nullability is mutually dependent (the analysis iterates to
	// a fixpoint: it has to terminate): A <- w(B) / w(C) / end ; B, C <- aliases of A
	{
		lit := peg.Lit
		wraps := []func(r string) *peg.Expr{
			func(r string) *peg.Expr { return peg.Ref(r) }, func(r string) *peg.Expr { return peg.Seq(lit("a"), peg.Ref(r), lit("b")) },
			func(r string) *peg.Expr { return peg.Seq(lit("a"), peg.Ref(r)) }, func(r string) *peg.Expr { return peg.Seq(peg.Ref(r), lit("b")) },
			func(r string) *peg.Expr { return peg.Opt(peg.Ref(r)) },
		}
		ends := []func() *peg.Expr{func() *peg.Expr { return lit("") }, func() *peg.Expr { return lit("a") }, func() *peg.Expr { return peg.Opt(lit("a")) }}
		aliases := []func() *peg.Expr{
			func() *peg.Expr { return peg.Ref("A") }, func() *peg.Expr { return peg.Choice(peg.Ref("A"), lit("")) }, func() *peg.Expr { return peg.Seq(lit("a"), peg.Ref("A")) },
			func() *peg.Expr { return peg.Seq(peg.Ref("A"), peg.Ref("A")) }, func() *peg.Expr { return peg.Star(peg.Ref("A")) },
		}
		for _, w1 := range wraps {
			for _, w2 := range wraps {
				for _, e := range ends {
					for _, a1 := range aliases {
						for _, a2 := range aliases {
							idx++
							if !c.Mine(idx) {
								continue
							}
							if c.Expired("family d") {
								return
							}
							for _, order := range []int{0, 1} {
								alts := []*peg.Expr{w1("B"), w2("C"), e()}
								if order == 1 {
									alts = []*peg.Expr{e(), w1("B"), w2("C")}
								}
								g := &peg.Grammar{Rules: []*peg.Rule{{Name: "A", Expr: peg.Choice(alts...)}, {Name: "B", Expr: a1()}, {Name: "C", Expr: a2()}}}
								text := []byte(peg.Print(g, &peg.PrintOpts{Package: "p"}))
								c.Res.Grammars++
								for _, m := range []int{0, 8, 10, 31} {
									x.build(text, m)
								}
							}
						}
					}
				}
			}
		}
	}
	// (b) token edits
	alphabet := []string{"A", "B", "x", "<-", "=", "'a'", "\"b\"", "`c`", "[a-z]", ".", "(", ")", "/", "*", "+", "?", "&", "!", "#", "%{l}", "//{l}", ":", ";", "{", "}", "{ return nil, nil }", "\n", " ", "i", "//", "/*", "*/", "\\", "'"}
	for _, txt := range c13Corpus() {
		toks := tokenize(txt)
		for i := 0; i <= len(toks); i++ {
			idx++
			if !c.Mine(idx) {
				continue
			}
			if c.Expired("family b") {
				return
			}
			var edits []string
			join := func(t []string) string { return strings.Join(t, "") }
			if i < len(toks) {
				edits = append(edits, join(append(append([]string{}, toks[:i]...), toks[i+1:]...)))                    // delete
				edits = append(edits, join(append(append(append([]string{}, toks[:i+1]...), toks[i]), toks[i+1:]...))) // duplicate
				for _, a := range alphabet {
					edits = append(edits, join(append(append(append([]string{}, toks[:i]...), a), toks[i+1:]...))) // replace
				}
			} else {
				edits = append(edits, txt)
				for _, a := range alphabet {
					edits = append(edits, txt+a)
				}
			}
			fsb := flagSets4
			if !c.Thorough() {
				fsb = [][]string{nil, flagSets4[3]}
			}
			for _, e := range edits {
				for _, fl := range fsb {
					x.call([]byte(e), fl, "family b")
				}
			}
		}
	}
	// (c) byte strings
	sig := []byte("{}[]()'\"`/*!&#%:;=<-a\n\\\xff")
	var rec func(prefix []byte, alpha []byte, depth int)
	rec = func(prefix []byte, alpha []byte, depth int) {
		if len(prefix) > 0 {
			idx++
			if c.Mine(idx) {
				for _, fl := range flagSets4 {
					x.call(prefix, fl, "family c")
				}
			}
		}
		if depth == 0 || c.Expired("family c") {
			return
		}
		for _, b := range alpha {
			rec(append(append([]byte{}, prefix...), b), alpha, depth-1)
		}
	}
	all := make([]byte, 256)
	for i := range all {
		all[i] = byte(i)
	}
	x.call([]byte{}, nil, "empty input")
	if c.Thorough() {
		rec(nil, sig, 4)
		rec(nil, all, 3)
	} else {
		rec(nil, sig, 3)
		rec(nil, all, 2)
	}
}

// classTexts enumerates the class texts "[...]" of at most k pieces.
func classTexts(k int) []string {
	pieces := []string{"a", "d", "-", "^", "é", `\t`, `\]`, `\\`, `\x2d`, `\101`, `\pL`, `\p{Nd}`}
	var out []string
	var rec func(n int, s string)
	rec = func(n int, s string) {
		out = append(out, "["+s+"]")
		if n == k {
			return
		}
		for _, p := range pieces {
			rec(n+1, s+p)
		}
	}
	rec(0, "")
	return out
}
