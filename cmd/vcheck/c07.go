package main

import (
	"fmt"
	"strings"

	"verif/engine/core"
	"verif/engine/hook"
	"verif/engine/peg"
	"verif/engine/rtapi"
)

func init() {
	register(&Check{
		ID: "C07", Level: "exploration", QuickSecs: 150, ThoroughSecs: 1500,
		Rule:        "rule-reference graphs on 1..3 rules; each rule is [alt0 /] alt1 [/ alt2] with alt1 = prefix ref-item ['a'] where prefix ranges over {none,'a',\"\",'a'?,'a'*,'a'+,&'a',!'a',[],[^a],&{true},#{},x:\"\",(\"\"/'a'),('a'/\"\"),%{l},N,('a'?)+,N+,('a'? {act}),(N {act})} (N <- 'z'? a nullable rule), ref-item over {R,R?,R*,R+,&R,!R,x:R,(R 'a'),(R/'a'),R{act},('a'/R), %{l} //{l} R, (N R)?,(N R)*,(N R 'a')+,&(N R),!(N R),x:(N R),!'a' / N R 'a',&'a' / R 'a',&{} / R 'a', recovery into N R, ('a' / %{l}) 'a' //{l} R, (%{l} 'a') //{l} R, (N %{l} 'a') //{l} N R, (%{l} R) //{l} \"\", (%{l} R 'a') //{l} 'a'?, (('a' / %{l}) R) //{l} N} and alt0 a nullable alternative that can fail (&!., !'a', !{}, &'a' \"\") for every target rule R (1 rule: complete product; 2 rules: complete sets for the first rule x reduced sets (thorough: complete) for the second; 3 rules: every 3-cycle and chord over 6 prefix kinds; mutually dependent nullability: 5 nullable prefix rules that refer back to the recursive rule x 4 recursive rules x both name orders and definition orders, also through a third rule); each grammar is analysed by the real front-end + builder.PrepareGrammar (accepted / 'contains left recursion') and compared with (i) ground truth within bounds: the reference interpreter run on all inputs over {a,b} up to L=2 reports whether some rule is re-entered at an offset where it is already active, (ii) an independent static analysis (least-fixpoint nullability, first-call sets descending into & and !). accepted + dynamic witness = miss; rejected + no static cycle + no witness = false rejection. For every miss and a slice of the accepted grammars the real generated parser is run (must stay within the expression budget whenever the reference terminates). Non-trivial = grammars with at least one cycle in the static analysis or a nullable prefix before a reference. Every rule is tried as Entrypoint for the dynamic witness; rules unreachable from the first rule; components without a leader (two / three rules that each reach themselves and each other); for every grammar of the small families and every 8th of the large ones the verdict is the BUILDER's (hook build mode).",
		Assumptions: []string{"hook analyze mode = ParseReader + builder.PrepareGrammar of the working tree", "recovery operators are analysed conservatively by both sides; no false-rejection alarm is raised for grammars with throw/recover"},
		Run:         runC07,
	})
}

func runC07(c *ShardCtx) {
	a := func() *peg.Expr { return peg.Lit("a") }
	prefixes := map[string]func() *peg.Expr{
		"none": nil, "a": a, "empty": func() *peg.Expr { return peg.Lit("") }, "opt": func() *peg.Expr { return peg.Opt(a()) },
		"star": func() *peg.Expr { return peg.Star(a()) }, "plus": func() *peg.Expr { return peg.Plus(a()) },
		"and": func() *peg.Expr { return peg.And(a()) }, "not": func() *peg.Expr { return peg.Not(a()) },
		"emptyclass": func() *peg.Expr { return peg.Cls(false, false) }, "notclass": func() *peg.Expr { return peg.Cls(true, false, "a") },
		"andcode": func() *peg.Expr { return peg.AndCode(0) }, "state": func() *peg.Expr { return peg.StateCode(0) },
		"labempty":         func() *peg.Expr { return peg.Label("x", peg.Lit("")) },
		"choiceEmptyFirst": func() *peg.Expr { return peg.Choice(peg.Lit(""), a()) }, "choiceEmptyLast": func() *peg.Expr { return peg.Choice(a(), peg.Lit("")) },
		"throw":  func() *peg.Expr { return peg.Throw("l") },
		"actopt": func() *peg.Expr { return peg.Action(0, peg.Opt(a())) }, "actnull": func() *peg.Expr { return peg.Action(0, peg.Ref("N")) },
		// a nullable RULE (rule N <- 'z'? is added to the grammar) and a + over a nullable body
		"nullrule":     func() *peg.Expr { return peg.Ref("N") },
		"emptylitrule": func() *peg.Expr { return peg.Ref("M") }, // (M <- "z" / "": nullable through an empty LITERAL in a leaf rule)
		"plusnullable": func() *peg.Expr { return peg.Plus(peg.Opt(a())) },
		// classes that hold U+FFFD (the rune the runtime shows at the end of input and for invalid
		// bytes): not nullable, they must not match without consuming anywhere
		"fffdclass": func() *peg.Expr { return peg.Cls(false, false, "\uFFFD") }, "fffdrange": func() *peg.Expr { return peg.Cls(false, false, "\u00A0-\uFFFF", "a") },
		"soclass": func() *peg.Expr { return peg.Cls(false, false, `\p{So}`) }, "fffdlit": func() *peg.Expr { return peg.Lit("\uFFFD") },
		"plusnullrule": func() *peg.Expr { return peg.Plus(peg.Ref("N")) },
	}
	prefixOrder := []string{"none", "a", "empty", "opt", "star", "plus", "and", "not", "emptyclass", "notclass", "andcode", "state", "labempty", "choiceEmptyFirst", "choiceEmptyLast", "throw", "nullrule", "plusnullable", "plusnullrule", "emptylitrule", "actopt", "actnull", "fffdclass", "fffdrange", "soclass", "fffdlit"}
	refItems := map[string]func(r string) *peg.Expr{
		"R": func(r string) *peg.Expr { return peg.Ref(r) }, "R?": func(r string) *peg.Expr { return peg.Opt(peg.Ref(r)) },
		"R*": func(r string) *peg.Expr { return peg.Star(peg.Ref(r)) }, "R+": func(r string) *peg.Expr { return peg.Plus(peg.Ref(r)) },
		"&R": func(r string) *peg.Expr { return peg.And(peg.Ref(r)) }, "!R": func(r string) *peg.Expr { return peg.Not(peg.Ref(r)) },
		"x:R": func(r string) *peg.Expr { return peg.Label("y", peg.Ref(r)) }, "(R a)": func(r string) *peg.Expr { return peg.Seq(peg.Ref(r), a()) },
		"(R/a)": func(r string) *peg.Expr { return peg.Choice(peg.Ref(r), a()) }, "R{}": func(r string) *peg.Expr { return peg.Action(0, peg.Ref(r)) },
		"(a/R)":   func(r string) *peg.Expr { return peg.Choice(a(), peg.Ref(r)) },
		"recover": func(r string) *peg.Expr { return peg.Recover(peg.Throw("l"), peg.Ref(r), "l") },
		// the reference behind a nullable rule INSIDE an operator (the nullable flag of
		// the inner rule reference has to be computed there too)
		"(N R)?":   func(r string) *peg.Expr { return peg.Opt(peg.Seq(peg.Ref("N"), peg.Ref(r))) },
		"(N R)*":   func(r string) *peg.Expr { return peg.Star(peg.Seq(peg.Ref("N"), peg.Ref(r))) },
		"(N R a)+": func(r string) *peg.Expr { return peg.Plus(peg.Seq(peg.Ref("N"), peg.Ref(r), a())) },
		"&(N R)":   func(r string) *peg.Expr { return peg.And(peg.Seq(peg.Ref("N"), peg.Ref(r))) },
		"!(N R)":   func(r string) *peg.Expr { return peg.Not(peg.Seq(peg.Ref("N"), peg.Ref(r))) },
		"x:(N R)":  func(r string) *peg.Expr { return peg.Label("y", peg.Seq(peg.Ref("N"), peg.Ref(r))) },
		"!a/N R":   func(r string) *peg.Expr { return peg.Choice(peg.Not(a()), peg.Seq(peg.Ref("N"), peg.Ref(r), a())) },
		"&a/R":     func(r string) *peg.Expr { return peg.Choice(peg.And(a()), peg.Seq(peg.Ref(r), a())) },
		"&{}/R":    func(r string) *peg.Expr { return peg.Choice(peg.AndCode(0), peg.Seq(peg.Ref(r), a())) },
		// guarded expression NOT nullable, but a throw reachable at its start
		"(a/%l) a //R": func(r string) *peg.Expr {
			return peg.Recover(peg.Seq(peg.Choice(a(), peg.Throw("l")), a()), peg.Ref(r), "l")
		},
		"(%l a) //R": func(r string) *peg.Expr { return peg.Recover(peg.Seq(peg.Throw("l"), a()), peg.Ref(r), "l") },
		"(N %l a) //N R": func(r string) *peg.Expr {
			return peg.Recover(peg.Seq(peg.Ref("N"), peg.Throw("l"), a()), peg.Seq(peg.Ref("N"), peg.Ref(r)), "l")
		},
		// a throw recovered by a NULLABLE recovery expression succeeds without consuming: what
		// follows it in the guarded expression is reached at the same offset
		"(%l R) //''": func(r string) *peg.Expr { return peg.Recover(peg.Seq(peg.Throw("l"), peg.Ref(r)), peg.Lit(""), "l") },
		"(%l R a) //a?": func(r string) *peg.Expr {
			return peg.Recover(peg.Seq(peg.Throw("l"), peg.Ref(r), a()), peg.Opt(a()), "l")
		},
		"((a/%l) R) //N": func(r string) *peg.Expr {
			return peg.Recover(peg.Seq(peg.Choice(a(), peg.Throw("l")), peg.Ref(r)), peg.Ref("N"), "l")
		},
		"recoverNR": func(r string) *peg.Expr {
			return peg.Recover(peg.Seq(peg.Opt(a()), peg.Throw("l")), peg.Seq(peg.Ref("N"), peg.Ref(r)), "l")
		},
	}
	refOrder := []string{"R", "R?", "R*", "R+", "&R", "!R", "x:R", "(R a)", "(R/a)", "R{}", "(a/R)", "recover", "(N R)?", "(N R)*", "(N R a)+", "&(N R)", "!(N R)", "x:(N R)", "!a/N R", "&a/R", "&{}/R", "recoverNR", "(a/%l) a //R", "(%l a) //R", "(N %l a) //N R", "(%l R) //''", "(%l R a) //a?", "((a/%l) R) //N"}
	alt2s := []func() *peg.Expr{nil, a, func() *peg.Expr { return peg.Lit("") }}
	mkRule := func(pre, ri, target string, tail bool, alt2 int) *peg.Expr {
		var items []*peg.Expr
		if f := prefixes[pre]; f != nil {
			items = append(items, f())
		}
		items = append(items, refItems[ri](target))
		if tail {
			items = append(items, a())
		}
		var e *peg.Expr
		if len(items) == 1 {
			e = items[0]
		} else {
			e = peg.Seq(items...)
		}
		if f := alt2s[alt2]; f != nil {
			e = peg.Choice(e, f())
		}
		return e
	}
	inputs := peg.Inputs([]string{"a", "b", "z"}, 2)
	idx := 0
	forceBuild := true
	check := func(g *peg.Grammar) {
		idx++
		if !c.Mine(idx) {
			return
		}
		usesN := false
		for _, r := range g.Rules {
			for _, x := range peg.RefsOf(r.Expr) {
				if x == "N" {
					usesN = true
				}
			}
		}
		if usesN && g.Rule("N") == nil {
			g.Rules = append(g.Rules, &peg.Rule{Name: "N", Expr: peg.Opt(peg.Lit("z"))})
		}
		usesM := false
		for _, r := range g.Rules {
			for _, x := range peg.RefsOf(r.Expr) {
				usesM = usesM || x == "M"
			}
		}
		if usesM && g.Rule("M") == nil {
			g.Rules = append(g.Rules, &peg.Rule{Name: "M", Expr: peg.Choice(peg.Lit("z"), peg.Lit(""))})
		}
		peg.Renumber(g, 1)
		text := peg.Print(g, nil)
		c.Res.Grammars++
		c.Res.Evaluations++
		r, err := c.W.Srv.Call(&hook.Req{Mode: "analyze", Text: []byte(text)})
		if err != nil {
			panic(&core.HarnessError{Msg: err.Error()})
		}
		if r.Panic != "" || r.Hung {
			c.Res.Counters["tool_panic"]++
			return
		}
		if r.ErrKind == "parse" {
			panic(&core.HarnessError{Msg: "front-end rejected an enumerated grammar: " + r.Err + "\n" + text})
		}
		rejected := r.HaveLR
		if r.Err != "" {
			// the analysis itself refused the grammar (a component without a leader): the grammar
			// is rejected whatever the flag says; it must then really have a cycle
			c.Res.Counters["prepare_error"]++
			rejected = true
		}
		// the verdict the USER gets is the builder's (BuildParser: what pigeon runs after the analysis):
		// for every grammar of the small families and every 8th of the large ones the build must
		// be refused exactly when the analysis says so
		if forceBuild || idx%8 == 0 {
			rb, err := c.W.Srv.Call(&hook.Req{Mode: "build", Text: []byte(text)})
			if err != nil {
				panic(&core.HarnessError{Msg: err.Error()})
			}
			c.Res.Counters["verdict_confirmed_by_build"]++
			if rb.Panic == "" && !rb.Hung && (rb.Err != "") != rejected {
				c.Res.Counters["build_verdict_differs_from_analysis"]++
				rejected = rb.Err != ""
			}
		}
		an := peg.Analyze(g)
		// (every rule is a possible entrypoint of the generated parser: a rule that the first rule
		// does not reach is still parsed with the Entrypoint option)
		witness, witnessIn := "", []byte(nil)
		var witnessEp *string
		for ri, rl := range g.Rules {
			var ep *string
			if ri > 0 {
				ep = strp(rl.Name)
			}
			for _, in := range inputs {
				ref := peg.Run(g, in, nil, peg.Options{HasState: true, DynamicRecoveryScope: true, MaxEval: 3000, Entrypoint: ep})
				if ref.Reentry != "" {
					witness, witnessIn, witnessEp = ref.Reentry, in, ep
					break
				}
			}
			if witness != "" {
				break
			}
		}
		hasRecovery := g.Has(peg.KRecover, peg.KThrow)
		if an.HasCycle() || strings.Contains(text, `""`) || strings.Contains(text, "?") || strings.Contains(text, "*") {
			c.Res.Nontrivial++
		}
		switch {
		case rejected:
			c.Res.Counters["rejected"]++
		default:
			c.Res.Counters["accepted"]++
		}
		if rejected != an.HasCycle() {
			c.Res.Counters["static_disagreement"]++
		}
		if idx%1000 == 7 {
			c.Sample(map[string]any{"grammar": oneLine(text), "tool_rejects": rejected, "static_cycle": an.HasCycle(), "dynamic_witness": witness})
		}
		if !rejected && witness != "" {
			// miss: confirm on the real generated parser
			detail := ""
			if b := buildOrCount(c, text, core.Gen{}); b != nil {
				o := rtapi.RunOpts{MaxExpr: 5000, Entrypoint: witnessEp}
				obs := b.Run(witnessIn, &o, nil)
				detail = fmt.Sprintf("; generated parser on %q (%s): val=%s errs=%v diverged=%v", witnessIn, optsString(&o), obs.Val, msgs(obs), obs.Diverged)
			}
			known := ""
			if an.HasCycle() && !peg.AnalyzeChoiceBlind(g).HasCycle() {
				// exactly the blind spot of finding D22
				known = "choice-blind-nullable"
			}
			if !an.HasCycle() && g.Has(peg.KThrow) && peg.AnalyzeThrowAware(g).HasCycle() {
				// no cycle in the first-call graph, but one once a throw is taken to reach
				// the recovery expressions listing its label: finding D26
				known = "throw-handler-cycle"
			}
			c.Report(Violation{Desc: "left recursion not detected: accepted without -support-left-recursion but rule re-entered at " + witness + detail, Grammar: text, Input: string(witnessIn), InputHex: hexOf(witnessIn)}, known)
			return
		}
		if rejected && !an.HasCycle() && witness == "" && !hasRecovery {
			known := ""
			if strings.Contains(text, "[]") {
				known = "empty-class-nullable"
			}
			c.Report(Violation{Desc: "grammar without left recursion rejected: no cycle in the first-call graph and no rule re-entered on any input up to length 2", Grammar: text}, known)
			return
		}
		// the same verdict with -optimize-grammar (the analysis then runs on the optimized grammar: inlined
		// copies of leaf rules, merged terminals): a grammar whose FIRST rule re-enters a rule - rules
		// the first rule does not reach are removed by the optimizer - must still be rejected
		if len(g.Rules) > 1 && witness != "" && witnessEp == nil && (forceBuild || idx%4 == 1) {
			ro, err := c.W.Srv.Call(&hook.Req{Mode: "build", Text: []byte(text), OptGrammar: true})
			if err != nil {
				panic(&core.HarnessError{Msg: err.Error()})
			}
			c.Res.Counters["verdict_with_optimize_grammar"]++
			if ro.Panic == "" && !ro.Hung && ro.Err == "" && rejected {
				c.Report(Violation{Desc: "left recursion not detected with -optimize-grammar: rejected without the flag, accepted with it, and the first rule re-enters a rule at " + witness, Grammar: text, Input: string(witnessIn), InputHex: hexOf(witnessIn), Gen: "-optimize-grammar"}, "")
				return
			}
		}
		// accepted grammars must terminate on the real parser whenever the reference does
		if !rejected && (forceBuild || idx%16 == 3) {
			if b := buildOrCount(c, text, core.Gen{}); b != nil {
				for _, in := range inputs {
					o := rtapi.RunOpts{MaxExpr: 5000}
					obs := b.Run(in, &o, nil)
					ref := peg.Run(g, in, nil, core.RefOptions(&o, b.Flags))
					c.Res.Evaluations++
					if ref.Outcome == peg.OResult && (obs.Diverged || hasKind(obs, "maxexpr")) {
						c.Report(Violation{Desc: "accepted grammar: generated parser exhausts the budget although the reference terminates", Grammar: text, Input: string(in), InputHex: hexOf(in)}, "")
					}
				}
			}
		}
	}
	full := prefixOrder
	reduced := []string{"none", "a", "empty", "opt", "and", "emptyclass", "state", "choiceEmptyLast"}
	refReduced := []string{"R", "R?", "&R", "!R", "(R/a)", "x:R"}
	// one rule
	for _, pre := range full {
		for _, ri := range refOrder {
			for _, tail := range []bool{false, true} {
				for alt2 := range alt2s {
					check(&peg.Grammar{Rules: []*peg.Rule{{Name: "A", Expr: mkRule(pre, ri, "A", tail, alt2)}}})
					// the same rule NOT reachable from the first rule (it is still an entrypoint of the
					// generated parser), and reachable only behind a terminal
					if alt2 == 1 {
						check(&peg.Grammar{Rules: []*peg.Rule{{Name: "Z0", Expr: peg.Lit("z")}, {Name: "A", Expr: mkRule(pre, ri, "A", tail, alt2)}}})
						check(&peg.Grammar{Rules: []*peg.Rule{{Name: "Z0", Expr: peg.Seq(peg.Lit("z"), peg.Ref("A"))}, {Name: "A", Expr: mkRule(pre, ri, "A", tail, alt2)}}})
					}
					// a first alternative that is nullable but can fail, the recursion in a later one
					if alt2 == 1 && !tail {
						for _, first := range []func() *peg.Expr{func() *peg.Expr { return peg.And(peg.Not(peg.Any())) }, func() *peg.Expr { return peg.Not(a()) }, func() *peg.Expr { return peg.NotCode(0) }, func() *peg.Expr { return peg.Seq(peg.And(a()), peg.Lit("")) }} {
							e := peg.Choice(first(), mkRule(pre, ri, "A", false, 0), a())
							check(&peg.Grammar{Rules: []*peg.Rule{{Name: "A", Expr: e}}})
						}
					}
					// two prefixes
					for _, pre2 := range reduced[1:] {
						if f := prefixes[pre2]; f != nil && prefixes[pre] != nil {
							e := peg.Seq(prefixes[pre](), f(), refItems[ri]("A"))
							if f2 := alt2s[alt2]; f2 != nil {
								e = peg.Choice(e, f2())
							}
							if !tail {
								check(&peg.Grammar{Rules: []*peg.Rule{{Name: "A", Expr: e}}})
							}
						}
					}
				}
			}
		}
	}
	// mutually dependent nullability: the nullable prefix rule P itself refers back to R behind a
	// terminal, R is nullable on its own and left-recursive behind P; both name orders (the analysis
	// visits the rules in name order) and a three-rule chain
	{
		lit := peg.Lit
		pbodies := []func(r string) *peg.Expr{
			func(r string) *peg.Expr { return peg.Opt(peg.Seq(lit("k"), peg.Ref(r))) },
			func(r string) *peg.Expr { return peg.Star(peg.Seq(lit("k"), peg.Ref(r))) },
			func(r string) *peg.Expr { return peg.Choice(peg.Seq(lit("k"), peg.Ref(r)), lit("")) },
			func(r string) *peg.Expr { return peg.Choice(lit(""), peg.Seq(lit("k"), peg.Ref(r))) },
			func(r string) *peg.Expr { return peg.Seq(peg.Opt(lit("k")), peg.Opt(peg.Seq(lit("z"), peg.Ref(r)))) },
		}
		rbodies := []func(p, r string) *peg.Expr{
			func(p, r string) *peg.Expr {
				return peg.Choice(peg.Seq(peg.Ref(p), peg.Ref(r), lit("a")), peg.Opt(lit("b")))
			},
			func(p, r string) *peg.Expr { return peg.Choice(peg.Seq(peg.Ref(p), peg.Ref(r), lit("a")), lit("b")) },
			func(p, r string) *peg.Expr { return peg.Seq(peg.Opt(peg.Seq(peg.Ref(p), peg.Ref(r))), lit("a")) },
			func(p, r string) *peg.Expr {
				return peg.Choice(peg.Opt(lit("b")), peg.Seq(peg.Ref(p), peg.Ref(r), lit("a")))
			},
		}
		for _, pb := range pbodies {
			for _, rb := range rbodies {
				for _, names := range [][2]string{{"A", "B"}, {"B", "A"}} {
					pn, rn := names[0], names[1]
					check(&peg.Grammar{Rules: []*peg.Rule{{Name: pn, Expr: pb(rn)}, {Name: rn, Expr: rb(pn, rn)}}})
					check(&peg.Grammar{Rules: []*peg.Rule{{Name: rn, Expr: rb(pn, rn)}, {Name: pn, Expr: pb(rn)}}})
					// through a third rule
					for _, third := range []string{"C", "0"} {
						tn := map[string]string{"C": "C", "0": "A0"}[third]
						check(&peg.Grammar{Rules: []*peg.Rule{{Name: pn, Expr: peg.Ref(tn)}, {Name: tn, Expr: pb(rn)}, {Name: rn, Expr: rb(pn, rn)}}})
					}
				}
			}
		}
	}
	// components without a leader: two (three) rules that each reach themselves AND each other, so
	// that no rule lies on every cycle (the analysis cannot choose a leader; without the flag the
	// grammar still has to be rejected)
	{
		lit := peg.Lit
		selfAlts := []func(r string) *peg.Expr{func(r string) *peg.Expr { return peg.Seq(peg.Ref(r), lit("x")) }, func(r string) *peg.Expr { return peg.Seq(peg.Opt(lit("o")), peg.Ref(r), lit("x")) }, func(r string) *peg.Expr { return peg.Seq(peg.And(peg.Ref(r)), lit("x")) }}
		otherAlts := []func(r string) *peg.Expr{func(r string) *peg.Expr { return peg.Ref(r) }, func(r string) *peg.Expr { return peg.Seq(peg.Ref(r), lit("z")) }, func(r string) *peg.Expr { return peg.Seq(peg.Not(lit("q")), peg.Ref(r)) }}
		for _, sa := range selfAlts {
			for _, oa := range otherAlts {
				for _, sb := range selfAlts {
					for _, ob := range otherAlts {
						for order := 0; order < 2; order++ {
							ra := &peg.Rule{Name: "A", Expr: peg.Choice(sa("A"), oa("B"), lit("a"))}
							rb := &peg.Rule{Name: "B", Expr: peg.Choice(sb("B"), ob("A"), lit("b"))}
							if order == 1 {
								ra.Expr = peg.Choice(oa("B"), sa("A"), lit("a"))
							}
							check(&peg.Grammar{Rules: []*peg.Rule{ra, rb}})
							check(&peg.Grammar{Rules: []*peg.Rule{{Name: "S", Expr: peg.Seq(lit("s"), peg.Ref("B"))}, {Name: "B", Expr: rb.Expr.Clone()}, {Name: "A", Expr: ra.Expr.Clone()}}})
						}
					}
				}
			}
		}
		// three rules, every rule refers to both others
		check(&peg.Grammar{Rules: []*peg.Rule{
			{Name: "A", Expr: peg.Choice(peg.Seq(peg.Ref("B"), lit("x")), peg.Seq(peg.Ref("C"), lit("x")), lit("a"))},
			{Name: "B", Expr: peg.Choice(peg.Seq(peg.Ref("C"), lit("y")), peg.Seq(peg.Ref("A"), lit("y")), lit("b"))},
			{Name: "C", Expr: peg.Choice(peg.Seq(peg.Ref("A"), lit("z")), peg.Seq(peg.Ref("B"), lit("z")), lit("c"))}}})
	}
	// a rule name defined TWICE (pigeon has no duplicate check; the generated parser uses the last
	// definition): one definition left-recursive, the other not, in both orders, directly and behind
	// another rule - whichever definition the parser runs is the one the verdict must be about
	{
		lit := peg.Lit
		lr := func() *peg.Expr { return peg.Choice(peg.Seq(peg.Ref("E"), lit("x"), peg.Ref("N")), peg.Ref("N")) }
		ok := func() *peg.Expr { return peg.Seq(peg.Ref("N"), peg.Star(peg.Seq(lit("x"), peg.Ref("N")))) }
		nrule := func() *peg.Rule { return &peg.Rule{Name: "N", Expr: lit("a")} }
		for _, order := range [][2]func() *peg.Expr{{lr, ok}, {ok, lr}, {lr, lr}, {ok, ok}} {
			check(&peg.Grammar{Rules: []*peg.Rule{{Name: "S", Expr: peg.Seq(peg.Ref("E"), peg.Not(peg.Any()))}, {Name: "E", Expr: order[0]()}, nrule(), {Name: "E", Expr: order[1]()}}})
			check(&peg.Grammar{Rules: []*peg.Rule{{Name: "E", Expr: order[0]()}, nrule(), {Name: "E", Expr: order[1]()}}})
			check(&peg.Grammar{Rules: []*peg.Rule{{Name: "S", Expr: peg.Ref("E")}, {Name: "E", Expr: order[0]()}, {Name: "E", Expr: order[1]()}, nrule()}})
		}
	}
	forceBuild = false
	// two rules
	p2set, r2set := reduced, refReduced
	if c.Thorough() {
		p2set, r2set = full, refOrder
	}
	for _, p1 := range full {
		for _, r1 := range refOrder {
			for _, p2 := range p2set {
				for _, r2 := range r2set {
					for _, t2 := range []string{"A", "B"} {
						if c.Expired("two-rule family") {
							return
						}
						for alt2 := range alt2s {
							check(&peg.Grammar{Rules: []*peg.Rule{{Name: "A", Expr: mkRule(p1, r1, "B", false, alt2)}, {Name: "B", Expr: mkRule(p2, r2, t2, true, 1)}}})
						}
					}
				}
			}
		}
	}
	// three rules
	six := []string{"none", "a", "empty", "opt", "and", "emptyclass"}
	if c.Thorough() {
		six = reduced
	}
	for _, p1 := range six {
		for _, p2 := range six {
			for _, p3 := range six {
				for _, t3 := range []string{"A", "B", "C"} {
					for _, r := range []string{"R", "&R", "(R/a)"} {
						if c.Expired("three-rule family") {
							return
						}
						check(&peg.Grammar{Rules: []*peg.Rule{{Name: "A", Expr: mkRule(p1, r, "B", false, 1)}, {Name: "B", Expr: mkRule(p2, "R", "C", false, 2)}, {Name: "C", Expr: mkRule(p3, r, t3, true, 1)}}})
					}
				}
			}
		}
	}
}

func hasKind(o *rtapi.Obs, k string) bool {
	for _, e := range o.Errs {
		if e.InnerKind == k {
			return true
		}
	}
	return o.Panic == k
}
