package main

import (
	"fmt"
	"os"
	"os/exec"
	"path/filepath"
	"strings"

	"verif/engine/core"
	"verif/engine/hook"
	"verif/engine/peg"
)

func init() {
	register(&Check{
		ID: "C04", Level: "exploration", QuickSecs: 170, ThoroughSecs: 1500,
		Rule:        "(i) naming: every pair of rule names from {A, A1, A1_, a, _x, Été, B2} x block positions 1..12 in the first rule (a chain of trivial items before the block) x block position 1 or 2 in the second x block kinds; (ii) scoping: every placement of <= 2 labels and the code blocks of all four kinds over the scope-introducing constructs (rule, choice alternative, label, & !, ? * +, recovery, nested sequence) up to N nodes (quick 4, thorough 5), blocks listing exactly the labels of their scope (reference scope rule); leaf rules with labels inlined by -optimize-grammar; a leaf rule holding blocks of every kind inlined into two or three recursive rules (every copy needs its own methods); (iii-b) optional helpers: 6 orders x 5 subsets of {rule with Unicode classes, rule with a plain class, rule with a state block, left-recursive rule} x 3 flag sets, compiled; (iii) classes: one grammar naming EVERY Unicode class the front-end accepts plus the single-letter classes. For every emitted text (hook build mode, all of them): each block has exactly one on-method and one trampoline, no duplicate method names, no duplicate parameters, parameters = stack keys = labels of the block's scope. For a systematic batch (and every family (i)/(iii) member) x flag combinations of -optimize-parser -optimize-grammar -optimize-basic-latin -support-left-recursion -nolint -cache and -receiver-name {c,p,cur}: the real main() output is written to a scratch module, then ONE gofmt -l, go build ./..., go vet ./... and one binary importing every package whose main calls Parse once per package (package initialisation must not panic; every class resolves). Non-trivial = grammars with >= 2 blocks or >= 1 label in a nested scope. Plus the cross family (cross.go, bodies <= 2 nodes - thorough 3 - x 16 flag sets: structural check on every case, a systematic part compiled). Code the loader refuses is reported only after the real compiler refused it too.",
		Assumptions: []string{"the Go toolchain (gofmt, go build, go vet) is the judge of 'compiles and vets'", "blocks are well-typed by construction"},
		Run:         runC04,
		Post:        postC04,
	})
}

// c04Case is one file to compile.
type c04Case struct {
	Text string   `json:"text"`
	Argv []string `json:"argv"`
	Why  string   `json:"why"`
}

func runC04(c *ShardCtx) {
	n := 4
	if c.Thorough() {
		n = 5
	}
	if c.Shard == 0 {
		for _, l := range core.BrokenVariants() {
			c.Report(Violation{Desc: "the parser runtime emitted for one generation flag set does not compile (variant index bits: 1 optimize-parser, 2 optimize-basic-latin, 4 state blocks, 8 left recursion): " + l, Grammar: "seed grammar of that variant, see engine/rtgen"}, "")
		}
	}
	idx := 0
	var batch []c04Case
	nProblem := 0
	quota := 14
	if c.Thorough() {
		quota = 60
	}
	addBatch := func(text string, argv []string, why string, force bool) {
		if force || len(batch) < quota {
			batch = append(batch, c04Case{text, argv, why})
		}
	}
	structural := func(g *peg.Grammar, gen core.Gen, why string, compile bool) {
		text := peg.Print(g, nil)
		c.Res.Grammars++
		c.Res.Evaluations++
		nb, nested := len(g.Blocks()), false
		for _, b := range g.Blocks() {
			if len(b.Args) > 0 {
				nested = true
			}
		}
		if nb >= 2 || nested {
			c.Res.Nontrivial++
		}
		b, err := c.W.Build(text, gen)
		if err != nil {
			panic(err)
		}
		if idx%499 == 3 {
			c.Sample(map[string]any{"grammar": oneLine(text), "flags": gen.String(), "blocks": nb, "problems": b.Problems})
		}
		switch {
		case b.Panic != "":
			c.Res.Counters["tool_panic"]++ // C13's concern
		case b.Err != "":
			c.Res.Rejected++
		case len(b.Problems) > 0:
			// the loader refused the emitted code. Whether that is a defect of the emitted code or
			// a limit of the loader is decided by the real compiler: the case goes into the
			// compile batch (a bounded number per shard) and is reported from there
			c.Res.Counters["refused_by_loader"]++
			if nProblem < 10 {
				nProblem++
				addBatch(strings.Replace(text, "package vgram", "package PKG", 1), gen.Argv(), loaderProblem+b.Problems[0], true)
			}
		default:
			// each block of the grammar became exactly one method
			if want, got := len(g.Blocks()), len(b.Prefix.Blocks); !gen.OptGrammar && want != got {
				c.Report(Violation{Desc: fmt.Sprintf("%d code blocks but %d on-methods emitted", want, got), Grammar: text, Gen: gen.String()}, "")
			}
			// each method receives EXACTLY the labels of its block's scope (reference scope rule); with
			// -optimize-grammar a block may be emitted several times (one method per inlined copy): every
			// copy still receives the labels of the scope the block was WRITTEN in, never labels of the
			// rule it was inlined into
			{
				byID := map[int]*peg.Expr{}
				for _, blk := range g.Blocks() {
					byID[blk.ID] = blk
				}
				for _, name := range b.Prefix.Order {
					eb := b.Prefix.Blocks[name]
					if blk := byID[eb.ID]; blk != nil && eb.Helper != "" && fmt.Sprint(eb.Params) != fmt.Sprint(blk.Args) {
						c.Report(Violation{Desc: fmt.Sprintf("method %s receives %v, the labels in the scope of its code block are %v", name, eb.Params, blk.Args), Grammar: text, Gen: gen.String()}, "")
						break
					}
				}
			}
			if compile {
				addBatch(strings.Replace(text, "package vgram", "package PKG", 1), gen.Argv(), why, false)
			}
		}
	}
	// (i) naming
	names := []string{"A", "A1", "A1_", "a", "_x", "Été", "B2"}
	kinds := []func() *peg.Expr{func() *peg.Expr { return peg.AndCode(0) }, func() *peg.Expr { return peg.StateCode(0) }}
	for _, n1 := range names {
		for _, n2 := range names {
			if n1 == n2 {
				continue
			}
			for p1 := 1; p1 <= 12; p1++ {
				for p2 := 1; p2 <= 2; p2++ {
					for ki, kf := range kinds {
						idx++
						if !c.Mine(idx) {
							continue
						}
						mk := func(pos int, ref string) *peg.Expr {
							// block at expression index pos: index 1 is the rule's root
							if pos == 1 {
								return peg.Action(0, peg.Lit("a"))
							}
							items := []*peg.Expr{}
							for k := 0; k < pos-2; k++ {
								items = append(items, peg.Lit("a"))
							}
							items = append(items, kf())
							if ref != "" {
								items = append(items, peg.Opt(peg.Ref(ref)))
							}
							if len(items) == 1 {
								items = append(items, peg.Lit("z"))
							}
							return peg.Seq(items...)
						}
						g := &peg.Grammar{Rules: []*peg.Rule{{Name: n1, Expr: mk(p1, n2)}, {Name: n2, Expr: mk(p2, "")}}}
						peg.Renumber(g, 1)
						peg.AssignArgs(g)
						structural(g, core.Gen{}, "naming", ki == 0 && p2 == 1 && (p1 == 1 || p1 == 11))
					}
				}
			}
		}
	}
	// (ii) scoping
	leaves := []*peg.Expr{peg.Lit("a"), peg.Any(), peg.AndCode(0), peg.NotCode(0), peg.StateCode(0), peg.Ref("L")}
	en := peg.NewEnumerator(peg.Alphabet{Leaves: leaves, Unary: allUnary, Seq: true, Choice: true, MaxArity: 3, NestSame: true, Recover: [][]string{{"l"}}})
	for size := 1; size <= n; size++ {
		for _, body := range en.Size(size) {
			for li, lab := range labelings(body, 2) {
				idx++
				if !c.Mine(idx) {
					continue
				}
				if c.Expired("scoping family size " + itoa(size)) {
					goto classes
				}
				for variant := 0; variant < 2; variant++ {
					var root *peg.Expr
					if variant == 0 {
						root = peg.Action(0, lab.Clone())
					} else {
						root = peg.Choice(peg.Action(0, lab.Clone()), peg.Action(0, peg.Label("x", peg.Lit("q"))))
					}
					g := &peg.Grammar{Rules: []*peg.Rule{{Name: "S", Expr: root}}}
					if len(peg.RefsOf(lab)) > 0 {
						// the leaf rule (inlined by -optimize-grammar): with labels of its own, or with blocks
						// but NO label (its blocks must not receive labels of the rule it is inlined into)
						var lx *peg.Expr
						switch li % 4 {
						case 0, 2:
							lx = peg.Action(0, peg.Seq(peg.Label("x", peg.Lit("a")), peg.Label("w", peg.Opt(peg.Lit("b")))))
						case 1:
							lx = peg.Action(0, peg.Seq(peg.AndCode(0), peg.Lit("a")))
						case 3:
							lx = peg.Seq(peg.Lit("a"), peg.StateCode(0), peg.Opt(peg.Action(0, peg.Lit("b"))))
						}
						g.Rules = append(g.Rules, &peg.Rule{Name: "L", Expr: lx})
					}
					peg.Renumber(g, 1)
					peg.AssignArgs(g)
					structural(g, core.Gen{}, "scoping", li%7 == 1 && variant == 0)
					if len(g.Rules) > 1 {
						structural(g, core.Gen{OptGrammar: true}, "scoping+inlining", li%7 == 1)
					}
				}
			}
		}
	}
	// (ii-b) a leaf rule with blocks of every kind inlined by -optimize-grammar into SEVERAL rules
	// that survive the optimization (recursive ones): every copy needs its own methods
	{
		lit := peg.Lit
		leafBodies := []func() *peg.Expr{
			func() *peg.Expr { return peg.Seq(peg.AndCode(0), lit("x")) }, func() *peg.Expr { return peg.Seq(peg.NotCode(0), lit("x")) },
			func() *peg.Expr { return peg.Seq(peg.StateCode(0), lit("x")) }, func() *peg.Expr { return peg.Action(0, peg.Label("x", lit("x"))) },
			func() *peg.Expr {
				return peg.Action(0, peg.Seq(peg.AndCode(0), peg.Label("x", lit("x")), peg.StateCode(0), peg.NotCode(0)))
			},
			// labels that are not direct items of the rule's sequence: in a parenthesised
			// sub-sequence, under a nested action
			func() *peg.Expr {
				return peg.Seq(lit("("), peg.Seq(peg.Label("k", lit("x")), lit(":"), peg.Label("w", lit("x"))), lit(")"))
			},
			func() *peg.Expr { return peg.Seq(peg.Action(0, peg.Label("k", lit("x"))), lit(";")) },
		}
		for li, lb := range leafBodies {
			for shape := 0; shape < 4; shape++ {
				idx++
				if !c.Mine(idx) {
					continue
				}
				rules := []*peg.Rule{
					{Name: "S", Expr: peg.Action(0, peg.Seq(peg.Label("v", peg.Ref("L")), peg.Label("t", peg.Ref("T"))))},
					{Name: "T", Expr: peg.Choice(peg.Seq(peg.Ref("L"), lit("a"), peg.Ref("T")), lit("b"))},
				}
				switch shape {
				case 1:
					rules = append(rules, &peg.Rule{Name: "U", Expr: peg.Choice(peg.Seq(lit("u"), peg.Ref("L"), peg.Ref("U")), peg.Ref("L"))})
					rules[0].Expr = peg.Action(0, peg.Seq(peg.Label("v", peg.Ref("L")), peg.Label("t", peg.Ref("T")), peg.Label("u", peg.Opt(peg.Ref("U")))))
				case 2:
					rules[1].Expr = peg.Choice(peg.Seq(peg.Ref("L"), peg.Ref("L"), peg.Ref("T")), lit("b"))
				case 3: // two unlabelled references in ONE scope that has a code block, next to an equally named label
					rules[0].Expr = peg.Action(0, peg.Seq(peg.Ref("L"), lit(","), peg.Ref("L"), peg.Label("k", peg.Opt(lit("q"))), peg.Opt(peg.Ref("T"))))
				}
				rules = append(rules, &peg.Rule{Name: "L", Expr: lb()})
				g := &peg.Grammar{Rules: rules}
				peg.Renumber(g, 1)
				peg.AssignArgs(g)
				for _, gen := range []core.Gen{{OptGrammar: true}, {OptGrammar: true, Optimize: true}} {
					structural(g, gen, "inlining into several rules", false)
				}
				addBatch(strings.Replace(peg.Print(g, nil), "package vgram", "package PKG", 1), core.Gen{OptGrammar: true}.Argv(), "inlining into several rules", li != 3 || shape == 0 || shape == 3)
			}
		}
	}
	// (iii-b) optional helpers: every ORDER of a rule with a Unicode class, a rule with a plain
	// class, a rule with a state block and a left-recursive rule (what the emitted file contains
	// must depend on what the grammar uses, not on what was written last) x flag sets
	{
		lit := peg.Lit
		parts := []func() *peg.Rule{
			func() *peg.Rule { return &peg.Rule{Name: "U", Expr: peg.Plus(peg.Cls(false, false, `\pL`, `\p{Nd}`))} },
			func() *peg.Rule { return &peg.Rule{Name: "P", Expr: peg.Star(peg.Cls(false, true, "a-c", " "))} },
			func() *peg.Rule { return &peg.Rule{Name: "T", Expr: peg.Seq(peg.StateCode(0), lit("t"))} },
			func() *peg.Rule {
				return &peg.Rule{Name: "R", Expr: peg.Choice(peg.Seq(peg.Ref("R"), lit("r")), lit("q"))}
			},
		}
		perms := [][]int{{0, 1, 2, 3}, {1, 0, 3, 2}, {3, 2, 1, 0}, {2, 0, 1, 3}, {0, 3, 2, 1}, {1, 2, 3, 0}}
		for pi, pm := range perms {
			for drop := -1; drop < 4; drop++ {
				idx++
				if !c.Mine(idx) {
					continue
				}
				g := &peg.Grammar{}
				var refs []*peg.Expr
				for _, k := range pm {
					if k == drop {
						continue
					}
					r := parts[k]()
					g.Rules = append(g.Rules, r)
					refs = append(refs, peg.Opt(peg.Ref(r.Name)))
				}
				g.Rules = append([]*peg.Rule{{Name: "S", Expr: peg.Action(0, peg.Seq(refs...))}}, g.Rules...)
				peg.Renumber(g, 1)
				peg.AssignArgs(g)
				text := strings.Replace(peg.Print(g, nil), "package vgram", "package PKG", 1)
				c.Res.Grammars++
				for fi, argv := range [][]string{{"-support-left-recursion"}, {"-support-left-recursion", "-optimize-grammar"}, {"-support-left-recursion", "-optimize-parser", "-optimize-basic-latin"}} {
					addBatch(text, argv, "optional helpers", c.Thorough() || (pi+drop+fi)%3 == 0)
				}
			}
		}
	}
classes:
	// (iii) classes and flag combinations: once, by shard 0
	if c.Shard == 0 {
		r, err := c.W.Srv.Call(&hook.Req{Mode: "classes"})
		if err != nil {
			panic(&core.HarnessError{Msg: err.Error()})
		}
		var items []string
		for _, cl := range r.Classes {
			items = append(items, `\p{`+cl+`}`)
		}
		for _, s := range "LMNCPZS" {
			items = append(items, `\p`+string(s))
		}
		var seq []*peg.Expr
		for i := 0; i < len(items); i += 12 {
			j := i + 12
			if j > len(items) {
				j = len(items)
			}
			cl := peg.Cls(false, i%24 == 0, items[i:j]...)
			if (i/12)%2 == 1 {
				// escapes of every kind between the Unicode classes (explicit spelling)
				src := "["
				for k, it := range items[i:j] {
					src += []string{"\\t", "\\x41", "\\101", "\\u00e9", "\\\\", "\\n"}[k%6] + it
				}
				cl.Src = src + "]"
				var withEsc []string
				for k, it := range items[i:j] {
					withEsc = append(withEsc, []string{"\t", "A", "A", "é", "\\", "\n"}[k%6], it)
				}
				e2 := peg.Cls(false, false, withEsc...)
				e2.Src = cl.Src
				cl = e2
			}
			seq = append(seq, cl)
		}
		for _, withState := range []bool{false, true} {
			body := []*peg.Expr{peg.Label("v", peg.Star(peg.Choice(seq...)))}
			if withState {
				body = append(body, peg.StateCode(0))
			}
			// (display names that a careless emitter trips over: a percent sign at the end, quotes, a backslash)
			g := &peg.Grammar{Rules: []*peg.Rule{{Name: "S", Display: "all classes, 100%", Expr: peg.Action(0, peg.Seq(body...))}, {Name: "R", Display: "a \"q\" \\ %s %", Expr: peg.Choice(peg.Seq(peg.Ref("R"), peg.Lit("a")), peg.Lit("b"))}}}
			peg.Renumber(g, 1)
			peg.AssignArgs(g)
			c.Res.Counters["unicode_classes_named"] = int64(len(items))
			for m := 0; m < 64; m++ {
				if !c.Thorough() && m%5 != 0 && m != 63 {
					continue
				}
				var argv []string
				for i, f := range []string{"-optimize-parser", "-optimize-grammar", "-optimize-basic-latin", "-support-left-recursion", "-nolint", "-cache"} {
					if m&(1<<i) != 0 {
						argv = append(argv, f)
					}
				}
				if m&8 == 0 {
					// without left recursion support rule R is rejected: drop it
					g2 := &peg.Grammar{Rules: g.Rules[:1]}
					recv := []string{"c", "p", "cur"}[m%3]
					text := peg.Print(g2, &peg.PrintOpts{Recv: recv, Package: "PKG"})
					addBatch(text, append(argv, "-receiver-name", recv), "classes", true)
				} else {
					text := peg.Print(&peg.Grammar{Rules: []*peg.Rule{g.Rules[0], {Name: "T", Expr: peg.Ref("R")}, g.Rules[1]}}, &peg.PrintOpts{Package: "PKG"})
					addBatch(text, argv, "classes+leftrec", true)
				}
				c.Res.Evaluations++
			}
		}
	}
	// a code block that calls Parse of its own package (an include, a sub-language): finding D39
	if c.Shard == 0 {
		addBatch("{\npackage PKG\n}\n\nA <- x:B !. { return Parse(\"inner\", []byte(\"b\")) }\nB <- \"b\"\n", nil, "a code block calls Parse", true)
	}
	// rules ALL of whose code blocks lie below a recovery operator (the usual shape of labeled
	// failures: //{..} binds weakest, so the rule's action sits in its guarded expression), on either
	// side of it, nested twice, referenced from another rule and inlined by -optimize-grammar
	{
		lit := peg.Lit
		blocks := []func() *peg.Expr{
			func() *peg.Expr { return peg.Action(0, peg.Label("x", lit("a"))) }, func() *peg.Expr { return peg.Seq(lit("a"), peg.AndCode(0)) },
			func() *peg.Expr { return peg.Seq(peg.NotCode(0), lit("a")) }, func() *peg.Expr { return peg.Seq(peg.StateCode(0), lit("a")) },
		}
		k := 0
		for _, bl := range blocks {
			for side := 0; side < 3; side++ {
				idx++
				if !c.Mine(idx) {
					continue
				}
				var body *peg.Expr
				switch side {
				case 0:
					body = peg.Recover(peg.Choice(bl(), peg.Throw("l")), lit("b"), "l")
				case 1:
					body = peg.Recover(peg.Choice(lit("c"), peg.Throw("l")), bl(), "l")
				case 2:
					body = peg.Recover(peg.Recover(peg.Choice(bl(), peg.Throw("m")), lit("b"), "l"), peg.Seq(lit("d"), bl()), "m")
				}
				for _, gen := range []core.Gen{{}, {Optimize: true}, {OptGrammar: true}, {Optimize: true, OptGrammar: true, BasicLatin: true}} {
					for shape := 0; shape < 2; shape++ {
						g := &peg.Grammar{Rules: []*peg.Rule{{Name: "A", Expr: body.Clone()}}}
						if shape == 1 {
							g = &peg.Grammar{Rules: []*peg.Rule{{Name: "S", Expr: peg.Seq(peg.Ref("A"), peg.Opt(peg.Ref("A")))}, {Name: "A", Expr: body.Clone()}}}
						}
						peg.Renumber(g, 1)
						peg.AssignArgs(g)
						k++
						quota = len(batch) + 1
						structural(g, gen, "blocks only below a recovery operator", k%3 == 1)
					}
				}
			}
		}
	}
	// cross family (cross.go): every construct next to every other under all 16 flag sets: one
	// method per block with exactly the labels of its scope (structural check on every case), a
	// systematic part really compiled, vetted and initialised
	{
		cn := 2
		if c.Thorough() {
			cn = 3
		}
		k := 0
		quota = len(batch) + 5 // (five more packages per shard for this family)
		for size := 1; size <= cn; size++ {
			for _, body := range crossBodies(size) {
				idx++
				if !c.Mine(idx) {
					continue
				}
				if c.Expired("cross family") {
					break
				}
				hasR := false
				for _, r := range peg.RefsOf(body) {
					hasR = hasR || r == "R"
				}
				for _, gen := range gens16 {
					if gen.LeftRec && !hasR {
						continue
					}
					k++
					structural(crossGrammar(body, gen.LeftRec), gen, "cross family", k%37 == 1)
				}
			}
		}
	}
	for _, b := range batch {
		c.Res.Samples = append(c.Res.Samples, nil)[:len(c.Res.Samples)]
		c.Res.Conf = append(c.Res.Conf, ConfCase{Text: b.Text, Why: "c04:" + b.Why, Gen: core.Gen{AltEntry: b.Argv}})
	}
}

// postC04 compiles the collected batch. The framework's conformance pass is
// skipped for these (they carry no runs); they are picked up here instead.
func postC04(tier string, m *ShardResult) {}

// compileBatch is called by the framework for C04 in place of runConformance.
// loaderProblem marks batch cases whose emitted code the loader refused.
const loaderProblem = "refused by the loader: "

// loaderAtFault lists batch cases the loader refused although the real tool chain compiles,
// vets and initialises them (set by compileBatch): a limit of the harness, never a verdict.
var loaderAtFault []string

func compileBatch(cases []ConfCase) (int, []Violation, error) {
	dir, err := os.MkdirTemp("", "verif-c04-")
	if err != nil {
		return 0, nil, err
	}
	defer os.RemoveAll(dir)
	srv, err := hook.Start(core.HookBin())
	if err != nil {
		return 0, nil, err
	}
	defer srv.Close()
	os.WriteFile(filepath.Join(dir, "go.mod"), []byte(fmt.Sprintf("module c04\n\ngo 1.25.0\n\nrequire verif v0.0.0\n\nrequire github.com/mna/pigeon v0.0.0\n\nreplace verif => %s\n\nreplace github.com/mna/pigeon => /repo\n", core.Root())), 0o644)
	sum, _ := os.ReadFile("/repo/go.sum")
	os.WriteFile(filepath.Join(dir, "go.sum"), sum, 0o644)
	var viols []Violation
	imports, calls := map[string]string{}, map[string]string{}
	var order []string
	texts := map[string]ConfCase{}
	for i, cs := range cases {
		pkg := fmt.Sprintf("g%d", i)
		text := strings.Replace(cs.Text, "package PKG", "package "+pkg, 1)
		argv := cs.Gen.AltEntry
		r, err := srv.Call(&hook.Req{Mode: "main", Text: []byte(text), Argv: argv})
		if err != nil {
			return 0, nil, err
		}
		if r.Exit != 0 || r.Panic != "" {
			viols = append(viols, Violation{Property: "C04", Desc: fmt.Sprintf("accepted by the builder but pigeon main() exits %d: %s %s", r.Exit, r.Panic, tail(string(r.Stderr), 300)), Grammar: text, Gen: strings.Join(argv, " ")})
			continue
		}
		pd := filepath.Join(dir, pkg)
		os.MkdirAll(pd, 0o755)
		os.WriteFile(filepath.Join(pd, "parser.go"), r.Stdout, 0o644)
		hasState := strings.Contains(string(r.Stdout), "state storeDict")
		recv := "c"
		for k, a := range argv {
			if a == "-receiver-name" && k+1 < len(argv) {
				recv = argv[k+1]
			}
		}
		_ = recv
		// helpers used by the canonical block bodies
		helper := fmt.Sprintf("package %s\n\nfunc vact(c *current, id int, args ...any) (any, error) { return string(c.text), nil }\nfunc vand(c *current, id int, args ...any) (bool, error) { return c.pos.offset >= 0, nil }\nfunc vnot(c *current, id int, args ...any) (bool, error) { return false, nil }\n", pkg)
		if hasState {
			helper += "func vst(c *current, id int, args ...any) error { c.state[\"k\"] = id; return nil }\n"
		} else {
			helper += "func vst(c *current, id int, args ...any) error { return nil }\n"
		}
		helper += "\n// Try parses one input (package initialisation has run by then).\nfunc Try() (err error) {\n\tdefer func() {\n\t\tif e := recover(); e != nil {\n\t\t\terr = fmt.Errorf(\"panic: %v\", e)\n\t\t}\n\t}()\n\t_, _ = Parse(\"\", []byte(\"aé1b\"), MaxExpressions(5000))\n\treturn nil\n}\n"
		helper = strings.Replace(helper, "package "+pkg+"\n", "package "+pkg+"\n\nimport \"fmt\"\n", 1)
		os.WriteFile(filepath.Join(pd, "helper.go"), []byte(helper), 0o644)
		imports[pkg] = fmt.Sprintf("\t%q", "c04/"+pkg)
		calls[pkg] = fmt.Sprintf("\tif err := %s.Try(); err != nil {\n\t\tfmt.Println(%q, err)\n\t\tbad = true\n\t}", pkg, pkg)
		order = append(order, pkg)
		texts[pkg] = cs
	}
	// dropped: packages that the compiler refused (each is a violation or a known finding already);
	// they are taken out of the module so that every OTHER package is still vetted and initialised
	dropped := map[string]bool{}
	writeMain := func() {
		var im, ca []string
		for _, pkg := range order {
			if !dropped[pkg] {
				im = append(im, imports[pkg])
				ca = append(ca, calls[pkg])
			}
		}
		mainSrc := "package main\n\nimport (\n\t\"fmt\"\n\t\"os\"\n" + strings.Join(im, "\n") + "\n)\n\nfunc main() {\n\tbad := false\n" + strings.Join(ca, "\n") + "\n\tif bad {\n\t\tos.Exit(1)\n\t}\n\tfmt.Println(\"all packages initialised\")\n}\n"
		os.WriteFile(filepath.Join(dir, "main.go"), []byte(mainSrc), 0o644)
	}
	writeMain()
	env := append(os.Environ(), "GOFLAGS=-mod=mod", "GOPROXY=off")
	run := func(name string, args ...string) (string, error) {
		cmd := exec.Command(name, args...)
		cmd.Dir = dir
		cmd.Env = env
		out, err := cmd.CombinedOutput()
		return string(out), err
	}
	var blamedNow []string
	blame := func(out string, what string) {
		hit := false
		blamedNow = nil
		for pkg, cs := range texts {
			if dropped[pkg] {
				continue
			}
			if strings.Contains(out, pkg+"/parser.go") || strings.Contains(out, "c04/"+pkg+"\n") || strings.Contains(out, "c04/"+pkg+" ") || strings.Contains(out, "\""+pkg+"\"") || strings.Contains(out, pkg+" panic") {
				hit = true
				blamedNow = append(blamedNow, pkg)
				var lines []string
				for _, l := range strings.Split(out, "\n") {
					if strings.Contains(l, pkg+"/") || strings.Contains(l, pkg+" ") {
						lines = append(lines, l)
					}
				}
				known := ""
				if strings.Contains(out, "initialization cycle") && strings.Contains(cs.Text, "Parse(") {
					// finding D39: a code block that calls Parse of its own package
					known = "D39"
				}
				viols = append(viols, Violation{Property: "C04", Desc: what + ": " + strings.Join(firstN(lines, 3), " | "), Grammar: strings.Replace(cs.Text, "package PKG", "package "+pkg, 1), Gen: strings.Join(cs.Gen.AltEntry, " "), Known: known})
			}
		}
		if !hit {
			viols = append(viols, Violation{Property: "C04", Desc: what + " (package not identified): " + tail(out, 600)})
		}
	}
	if out, _ := run("gofmt", "-l", "."); strings.TrimSpace(out) != "" {
		var ps []string
		for _, l := range strings.Fields(out) {
			if strings.HasSuffix(l, "parser.go") {
				ps = append(ps, l)
			}
		}
		if len(ps) > 0 {
			blame(strings.Join(ps, "\n"), "emitted file is not gofmt-formatted")
		}
	}
	for round := 0; ; round++ {
		out, err := run("go", "build", "./...")
		if err == nil {
			break
		}
		blame(out, "go build fails")
		if len(blamedNow) == 0 || round > 20 {
			return len(texts), viols, nil
		}
		for _, pkg := range blamedNow {
			dropped[pkg] = true
			os.RemoveAll(filepath.Join(dir, pkg))
		}
		writeMain()
	}
	if out, err := run("go", "vet", "./..."); err != nil {
		blame(out, "go vet reports")
	}
	if out, err := run("go", "run", "."); err != nil {
		blame(out, "package initialisation / first Parse panics")
	}
	for pkg, cs := range texts {
		if !strings.Contains(cs.Why, loaderProblem) {
			continue
		}
		blamed := false
		for _, v := range viols {
			if strings.Contains(v.Grammar, "package "+pkg+"\n") {
				blamed = true
			}
		}
		if !blamed {
			loaderAtFault = append(loaderAtFault, cs.Why+" :: "+oneLine(cs.Text)+" "+strings.Join(cs.Gen.AltEntry, " "))
		}
	}
	return len(texts) - len(dropped), viols, nil
}

func firstN(s []string, n int) []string {
	if len(s) > n {
		return s[:n]
	}
	return s
}
