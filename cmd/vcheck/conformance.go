package main

import (
	"bytes"
	"encoding/json"
	"fmt"
	"os"
	"os/exec"
	"path/filepath"
	"strings"
	"time"

	"verif/engine/core"
	"verif/engine/hook"
	"verif/engine/rtapi"
	"verif/engine/tmpl"
)

// ConfRun is one Parse call whose loader-path observation is to be
// reproduced by the really compiled parser.
type ConfRun struct {
	Input  []byte               `json:"input"`
	Opts   rtapi.RunOpts        `json:"opts"`
	Script map[int]*rtapi.Block `json:"script"`
	Obs    *rtapi.Obs           `json:"obs,omitempty"`
}

// ConfCase is one grammar + flag set with its runs.
type ConfCase struct {
	Text     string    `json:"text"`
	Gen      core.Gen  `json:"gen"`
	HasState bool      `json:"has_state"`
	HasMemo  bool      `json:"has_memo"`
	Why      string    `json:"why"`
	Runs     []ConfRun `json:"runs"`
}

const confDriver = `package main

import (
	"encoding/json"
	"fmt"
	"io"
	"os"
	"os/exec"
	"strconv"

	"verif/engine/rtapi"
%s
)

type run struct {
	Input  []byte
	Opts   rtapi.RunOpts
	Script map[int]*rtapi.Block
}

var runners = []func([]byte, *rtapi.RunOpts, *rtapi.Ctx) *rtapi.Obs{
%s
}

func main() {
	// child mode: driver -one <in.json> <case> <run>: ONE Parse call in a fresh
	// process (cold package-level state, cold sync.Pool), observation on fd 3
	if len(os.Args) == 5 && os.Args[1] == "-one" {
		var cases [][]run
		b, _ := os.ReadFile(os.Args[2])
		if err := json.Unmarshal(b, &cases); err != nil {
			panic(err)
		}
		i, _ := strconv.Atoi(os.Args[3])
		j, _ := strconv.Atoi(os.Args[4])
		devnull, _ := os.OpenFile(os.DevNull, os.O_WRONLY, 0)
		os.Stdout = devnull
		r := cases[i][j]
		o := r.Opts
		obs := runners[i](r.Input, &o, &rtapi.Ctx{Script: r.Script})
		f := os.NewFile(3, "result")
		json.NewEncoder(f).Encode(obs)
		f.Close()
		return
	}
	var cases [][]run
	in, _ := io.ReadAll(os.Stdin)
	if err := json.Unmarshal(in, &cases); err != nil {
		panic(err)
	}
	inPath := os.Args[1] + ".in"
	os.WriteFile(inPath, in, 0o644)
	res := make([][]*rtapi.Obs, len(cases))
	for i, rs := range cases {
		for j := range rs {
			pr, pw, _ := os.Pipe()
			cmd := exec.Command(os.Args[0], "-one", inPath, strconv.Itoa(i), strconv.Itoa(j))
			cmd.ExtraFiles = []*os.File{pw}
			cmd.Stderr = os.Stderr
			if err := cmd.Start(); err != nil {
				panic(err)
			}
			pw.Close()
			var obs rtapi.Obs
			derr := json.NewDecoder(pr).Decode(&obs)
			pr.Close()
			werr := cmd.Wait()
			if derr != nil {
				obs = rtapi.Obs{Panic: fmt.Sprintf("conformance child failed: %%v %%v", werr, derr)}
			}
			res[i] = append(res[i], &obs)
		}
	}
	out, _ := os.OpenFile(os.Args[1], os.O_CREATE|os.O_WRONLY|os.O_TRUNC, 0o644)
	json.NewEncoder(out).Encode(res)
	out.Close()
}
`

func obsKey(o *rtapi.Obs) string {
	c := *o
	c.Ticks, c.Diverged = 0, false
	c.EvalRepeat, c.EvalCalls = "", 0 // census hook: loader path only
	c.Pool = nil                      // the pool monitor only exists in the loader path
	b, _ := json.Marshal(&c)
	return string(b)
}

// runConformance compiles every case with the real tool chain (hook main
// mode = the real main() incl. goimports, then go build) and replays the
// runs. It returns the number of runs validated and a description of every
// disagreement between the loader path and the compiled parser.
func runConformance(cases []ConfCase) (validated int, mismatches []string, err error) {
	if len(cases) == 0 {
		return 0, nil, nil
	}
	dir, err := os.MkdirTemp("", "verif-conf-")
	if err != nil {
		return 0, nil, err
	}
	defer os.RemoveAll(dir)
	srv, err := hook.Start(core.HookBin())
	if err != nil {
		return 0, nil, err
	}
	defer srv.Close()
	gomod := fmt.Sprintf("module conf\n\ngo 1.25.0\n\nrequire verif v0.0.0\n\nrequire github.com/mna/pigeon v0.0.0\n\nreplace verif => %s\n\nreplace github.com/mna/pigeon => /repo\n", core.Root())
	if err := os.WriteFile(filepath.Join(dir, "go.mod"), []byte(gomod), 0o644); err != nil {
		return 0, nil, err
	}
	sum, _ := os.ReadFile("/repo/go.sum")
	os.WriteFile(filepath.Join(dir, "go.sum"), sum, 0o644)
	var imports, runners []string
	var stdin [][]ConfRun
	kept := []int{}
	for i, cs := range cases {
		pkg := fmt.Sprintf("g%d", i)
		text := strings.Replace(cs.Text, "package vgram", "package "+pkg, 1)
		r, err := srv.Call(&hook.Req{Mode: "main", Text: []byte(text), Argv: cs.Gen.Argv()})
		if err != nil {
			return validated, nil, err
		}
		if r.Exit != 0 || r.Panic != "" {
			mismatches = append(mismatches, fmt.Sprintf("case %d (%s): loader path built the grammar but pigeon main() exited %d: %s %s", i, cs.Why, r.Exit, r.Panic, r.Stderr))
			continue
		}
		pd := filepath.Join(dir, pkg)
		os.MkdirAll(pd, 0o755)
		os.WriteFile(filepath.Join(pd, "parser.go"), r.Stdout, 0o644)
		for _, name := range []string{"vprobe.go", "run.go"} {
			src, err := tmpl.Render(name, tmpl.Data{Pkg: pkg, HasState: cs.HasState, HasMemo: cs.HasMemo})
			if err != nil {
				return validated, nil, err
			}
			os.WriteFile(filepath.Join(pd, name), src, 0o644)
		}
		imports = append(imports, fmt.Sprintf("\t%q", "conf/"+pkg))
		runners = append(runners, fmt.Sprintf("\t%s.VRun,", pkg))
		runs := make([]ConfRun, len(cs.Runs))
		for j, rn := range cs.Runs {
			runs[j] = ConfRun{Input: rn.Input, Opts: rn.Opts, Script: rn.Script}
		}
		stdin = append(stdin, runs)
		kept = append(kept, i)
	}
	if len(kept) == 0 {
		return 0, mismatches, nil
	}
	os.WriteFile(filepath.Join(dir, "main.go"), []byte(fmt.Sprintf(confDriver, strings.Join(imports, "\n"), strings.Join(runners, "\n"))), 0o644)
	build := exec.Command("go", "build", "-o", "driver", ".")
	build.Dir = dir
	build.Env = append(os.Environ(), "GOFLAGS=-mod=mod", "GOPROXY=off")
	if out, err := build.CombinedOutput(); err != nil {
		// the compiler rejecting a file the loader accepted is a disagreement
		mismatches = append(mismatches, "go build of the generated parsers failed although the loader accepted them:\n"+string(out))
		return validated, mismatches, nil
	}
	in, _ := json.Marshal(stdin)
	run := exec.Command(filepath.Join(dir, "driver"), filepath.Join(dir, "out.json"))
	run.Stdin = bytes.NewReader(in)
	run.Stderr = os.Stderr
	done := make(chan error, 1)
	if err := run.Start(); err != nil {
		return validated, mismatches, err
	}
	go func() { done <- run.Wait() }()
	select {
	case err := <-done:
		if err != nil {
			return validated, mismatches, fmt.Errorf("conformance driver: %v", err)
		}
	case <-time.After(600 * time.Second):
		// (a wall-clock limit is no oracle: on a loaded machine, or with a compiled parser that
		// does not return - it has no tick cap -, the replay is abandoned and said so; the
		// verdict of the check rests on the explored cases)
		run.Process.Kill()
		fmt.Println("note: the replay of the conformance sample on compiled parsers did not finish within 600 s and was abandoned (traces_validated_against_impl counts only what finished)")
		return validated, nil, nil
	}
	outb, err := os.ReadFile(filepath.Join(dir, "out.json"))
	if err != nil {
		return validated, mismatches, err
	}
	var res [][]*rtapi.Obs
	if err := json.Unmarshal(outb, &res); err != nil {
		return validated, mismatches, err
	}
	for k, i := range kept {
		for j, rn := range cases[i].Runs {
			want, got := obsKey(rn.Obs), obsKey(res[k][j])
			if want != got {
				mismatches = append(mismatches, fmt.Sprintf("case %d (%s) grammar %q gen %s input %q opts %s: loader %s compiled %s", i, cases[i].Why, oneLine(cases[i].Text), cases[i].Gen, rn.Input, optsString(&rn.Opts), want, got))
			} else {
				validated++
			}
		}
	}
	return validated, mismatches, nil
}
