package main

import (
	"bufio"
	"encoding/hex"
	"encoding/json"
	"fmt"
	"os"
	"os/exec"
	"path/filepath"
	"runtime/pprof"
	"sort"
	"strconv"
	"strings"
	"sync"
	"time"

	"verif/engine/core"
	"verif/engine/rtapi"
)

// Violation is one failing case.
type Violation struct {
	Property string         `json:"property"`
	Desc     string         `json:"desc"`
	Grammar  string         `json:"grammar,omitempty"`
	Gen      string         `json:"gen,omitempty"`
	InputHex string         `json:"input_hex,omitempty"`
	Input    string         `json:"input,omitempty"`
	Opts     string         `json:"opts,omitempty"`
	Diffs    []string       `json:"diffs,omitempty"`
	Known    string         `json:"known,omitempty"`
	Extra    map[string]any `json:"extra,omitempty"`
}

// ShardResult is what one worker reports.
type ShardResult struct {
	Evaluations  int64                `json:"evaluations"`
	Nontrivial   int64                `json:"nontrivial"`
	Grammars     int64                `json:"grammars"`
	Rejected     int64                `json:"rejected"`
	Skipped      int64                `json:"skipped"`
	States       int64                `json:"states"`
	Transitions  int64                `json:"transitions"`
	Conformance  int64                `json:"conformance"`
	Counters     map[string]int64     `json:"counters"`
	Violations   []Violation          `json:"violations"`
	NViolations  int64                `json:"nviolations"`
	Known        map[string]int64     `json:"known"`
	KnownSamples map[string]Violation `json:"known_samples"`
	Samples      []any                `json:"samples"`
	Exhaustive   bool                 `json:"exhaustive"`
	CapNote      string               `json:"cap_note,omitempty"`
	HarnessErr   string               `json:"harness_err,omitempty"`
	Conf         []ConfCase           `json:"conf,omitempty"`
	// ToolPanic: the first Go panic / crash of the tool met while building a grammar of this check's families
	ToolPanic string `json:"tool_panic,omitempty"`
	// ProblemCases: grammars whose emitted code the loader refused (decided by the real compiler in the parent)
	ProblemCases []ConfCase `json:"problem_cases,omitempty"`
	confSeen     int
	warmSeen     int
}

func newShardResult() *ShardResult {
	return &ShardResult{Counters: map[string]int64{}, Known: map[string]int64{}, KnownSamples: map[string]Violation{}, Exhaustive: true}
}

// Finding is one line of known_findings.txt.
type Finding struct {
	Fixed    bool
	Property string
	ID       string
	Quirk    string
	Text     string
}

func loadFindings() []Finding {
	f, err := os.Open(filepath.Join(core.Root(), "known_findings.txt"))
	if err != nil {
		return nil
	}
	defer f.Close()
	var out []Finding
	sc := bufio.NewScanner(f)
	for sc.Scan() {
		line := strings.TrimSpace(sc.Text())
		if line == "" || strings.HasPrefix(line, "#") {
			continue
		}
		fd := Finding{Text: line}
		switch {
		case strings.HasPrefix(line, "fixed:"):
			fd.Fixed = true
			line = strings.TrimPrefix(line, "fixed:")
		case strings.HasPrefix(line, "finding:"):
			line = strings.TrimPrefix(line, "finding:")
		default:
			continue
		}
		for _, tok := range strings.Fields(line) {
			if kv := strings.SplitN(tok, "=", 2); len(kv) == 2 {
				switch kv[0] {
				case "property":
					fd.Property = kv[1]
				case "id":
					fd.ID = kv[1]
				case "quirk":
					fd.Quirk = kv[1]
				}
			}
		}
		out = append(out, fd)
	}
	return out
}

// ShardCtx is handed to a check's worker function.
type ShardCtx struct {
	ID       string
	Tier     string
	Shard, N int
	W        *core.Worker
	Res      *ShardResult
	Deadline time.Time
	Findings []Finding // unfixed findings of this property
	Seed     int
}

func (c *ShardCtx) Mine(idx int) bool { return (idx+c.Seed)%c.N == c.Shard }
func (c *ShardCtx) Thorough() bool    { return c.Tier == "thorough" }

// Expired reports whether the internal deadline passed; the check then
// stops enumerating and reports exhaustive:false (never a failure).
func (c *ShardCtx) Expired(note string) bool {
	if time.Now().After(c.Deadline) {
		if c.Res.Exhaustive {
			c.Res.Exhaustive = false
			c.Res.CapNote = note
		}
		return true
	}
	return false
}

// Quirks returns the quirk names of the known findings of this property.
func (c *ShardCtx) Quirks() []string {
	var q []string
	for _, f := range c.Findings {
		if f.Quirk != "" {
			q = append(q, f.Quirk)
		}
	}
	return q
}

// Report records a violation; known is the finding id that explains it ("" none).
func (c *ShardCtx) Report(v Violation, knownQuirk string, conf ...*ConfCase) {
	v.Property = c.ID
	if knownQuirk != "" {
		for _, f := range c.Findings {
			if f.Quirk == knownQuirk {
				v.Known = f.ID
				c.Res.Known[f.ID]++
				if _, ok := c.Res.KnownSamples[f.ID]; !ok {
					c.Res.KnownSamples[f.ID] = v
					for _, cc := range conf {
						if cc != nil {
							cc.Why = "known finding " + f.ID
							c.Res.Conf = append(c.Res.Conf, *cc)
						}
					}
				}
				return
			}
		}
	}
	c.Res.NViolations++
	if len(c.Res.Violations) < 20 {
		c.Res.Violations = append(c.Res.Violations, v)
		if len(c.Res.Violations) <= 2 {
			for _, cc := range conf {
				if cc != nil {
					cc.Why = "violation"
					c.Res.Conf = append(c.Res.Conf, *cc)
				}
			}
		}
	}
}

// ConfSample adds one run of a systematic sample to the conformance batch
// (replayed on a really compiled parser by the parent): every every-th call
// per shard, at most quota per shard.
func (c *ShardCtx) ConfSample(every, quota int, text string, gen core.Gen, b *core.Built, in []byte, o rtapi.RunOpts, script map[int]*rtapi.Block, obs *rtapi.Obs) {
	c.Res.confSeen++
	if obs.Diverged || c.Res.confSeen%every != 1 {
		return
	}
	n := 0
	for _, cc := range c.Res.Conf {
		if cc.Why == "systematic sample" {
			n++
		}
	}
	if n >= quota {
		return
	}
	c.Res.Conf = append(c.Res.Conf, ConfCase{Text: text, Gen: gen, HasState: b.Flags.HasState(), HasMemo: b.Flags.HasMemo(), Why: "systematic sample",
		Runs: []ConfRun{{Input: in, Opts: o, Script: script, Obs: obs}}})
}

func (c *ShardCtx) Sample(s any) {
	if len(c.Res.Samples) < 3 {
		c.Res.Samples = append(c.Res.Samples, s)
	}
}

// Check describes one property check.
type Check struct {
	ID           string
	Level        string
	Rule         string
	Assumptions  []string
	Explanation  string
	Single       bool // one worker only
	QuickSecs    int
	ThoroughSecs int
	Run          func(c *ShardCtx)
	// Post runs in the parent after merging (may add to the merged result).
	Post func(tier string, merged *ShardResult)
}

var registry = map[string]*Check{}

func register(c *Check) { registry[c.ID] = c }

func hexOf(b []byte) string { return hex.EncodeToString(b) }

func seedEnv() int {
	s, _ := strconv.Atoi(os.Getenv("VERIF_SEED"))
	if s < 0 {
		s = -s
	}
	return s
}

// workerMain: vcheck worker <id> <tier> <shard> <n>
func workerMain(args []string) int {
	if len(args) != 4 {
		return 2
	}
	chk := registry[args[0]]
	if chk == nil {
		return 2
	}
	shard, _ := strconv.Atoi(args[2])
	n, _ := strconv.Atoi(args[3])
	// results go to fd 3; stdout is swallowed (Debug(true) prints there)
	resOut := os.NewFile(3, "results")
	devnull, _ := os.OpenFile(os.DevNull, os.O_WRONLY, 0)
	os.Stdout = devnull
	res := newShardResult()
	secs := chk.QuickSecs
	if args[1] == "thorough" {
		secs = chk.ThoroughSecs
	}
	if secs == 0 {
		secs = 120
	}
	if s := os.Getenv("VERIF_DEADLINE_SECS"); s != "" {
		secs, _ = strconv.Atoi(s)
	}
	ctx := &ShardCtx{ID: chk.ID, Tier: args[1], Shard: shard, N: n, Res: res, Deadline: time.Now().Add(time.Duration(secs) * time.Second), Seed: seedEnv()}
	for _, f := range loadFindings() {
		if f.Property == chk.ID && !f.Fixed {
			ctx.Findings = append(ctx.Findings, f)
		}
	}
	if pf := os.Getenv("VERIF_CPUPROFILE"); pf != "" && shard == 0 {
		f, _ := os.Create(pf)
		pprof.StartCPUProfile(f)
		defer pprof.StopCPUProfile()
	}
	func() {
		defer func() {
			if e := recover(); e != nil {
				if he, ok := e.(*core.HarnessError); ok {
					res.HarnessErr = he.Error()
					return
				}
				res.HarnessErr = fmt.Sprint("panic in worker: ", e)
				if os.Getenv("VERIF_DEBUG") != "" {
					panic(e)
				}
			}
		}()
		w, err := core.NewWorker()
		if err != nil {
			res.HarnessErr = err.Error()
			return
		}
		defer w.Close()
		ctx.W = w
		chk.Run(ctx)
	}()
	b, _ := json.Marshal(res)
	resOut.Write(b)
	resOut.Close()
	return 0
}

func nWorkers(chk *Check) int {
	if chk.Single {
		return 1
	}
	n := 16
	if s := os.Getenv("VERIF_WORKERS"); s != "" {
		n, _ = strconv.Atoi(s)
	}
	return n
}

// runCheck is the parent: spawn workers, merge, write evidence, print verdict.
func runCheck(id, tier string) int {
	chk := registry[id]
	if chk == nil {
		fmt.Fprintln(os.Stderr, "unknown check", id)
		return 2
	}
	start := time.Now()
	n := nWorkers(chk)
	exe, _ := os.Executable()
	results := make([]*ShardResult, n)
	errs := make([]error, n)
	var wg sync.WaitGroup
	for i := 0; i < n; i++ {
		wg.Add(1)
		go func(i int) {
			defer wg.Done()
			cmd := exec.Command(exe, "worker", id, tier, strconv.Itoa(i), strconv.Itoa(n))
			cmd.Env = append(os.Environ(), "VERIF_ROOT="+core.Root(), "GOMAXPROCS=2")
			pr, pw, err := os.Pipe()
			if err != nil {
				errs[i] = err
				return
			}
			cmd.ExtraFiles = []*os.File{pw}
			cmd.Stderr = os.Stderr
			if err := cmd.Start(); err != nil {
				errs[i] = err
				return
			}
			pw.Close()
			var r ShardResult
			derr := json.NewDecoder(pr).Decode(&r)
			werr := cmd.Wait()
			pr.Close()
			if derr != nil {
				errs[i] = fmt.Errorf("worker %d: no result (%v, %v)", i, derr, werr)
				return
			}
			results[i] = &r
		}(i)
	}
	wg.Wait()
	merged := newShardResult()
	for i, r := range results {
		if errs[i] != nil {
			fmt.Fprintln(os.Stderr, "harness error:", errs[i])
			return 2
		}
		if r.HarnessErr != "" {
			fmt.Fprintln(os.Stderr, "harness error:", r.HarnessErr)
			return 2
		}
		merged.Evaluations += r.Evaluations
		merged.Nontrivial += r.Nontrivial
		merged.Grammars += r.Grammars
		merged.Rejected += r.Rejected
		merged.Skipped += r.Skipped
		merged.States += r.States
		merged.Transitions += r.Transitions
		merged.Conformance += r.Conformance
		merged.NViolations += r.NViolations
		for k, v := range r.Counters {
			merged.Counters[k] += v
		}
		for k, v := range r.Known {
			merged.Known[k] += v
			if _, ok := merged.KnownSamples[k]; !ok {
				merged.KnownSamples[k] = r.KnownSamples[k]
			}
		}
		merged.Violations = append(merged.Violations, r.Violations...)
		if len(merged.Samples) < 3 {
			merged.Samples = append(merged.Samples, r.Samples...)
		}
		if !r.Exhaustive {
			merged.Exhaustive = false
			merged.CapNote = r.CapNote
		}
	}
	if len(merged.Samples) > 3 {
		merged.Samples = merged.Samples[:3]
	}
	// conformance: replay the collected cases on really compiled parsers
	var conf []ConfCase
	for _, r := range results {
		for _, cc := range r.Conf {
			if len(conf) < 96 {
				conf = append(conf, cc)
			}
		}
	}
	if id == "C04" && len(conf) > 0 {
		var all []ConfCase
		for _, r := range results {
			all = append(all, r.Conf...)
		}
		compiled, viols, err := compileBatch(all)
		if err != nil {
			fmt.Fprintln(os.Stderr, "harness error: compile batch:", err)
			return 2
		}
		merged.Conformance += int64(compiled)
		merged.Counters["packages_compiled_vetted_initialised"] = int64(compiled)
		for _, v := range viols {
			listed := false
			for _, f := range loadFindings() {
				if v.Known != "" && f.ID == v.Known && f.Property == id && !f.Fixed {
					listed = true
				}
			}
			if listed {
				merged.Known[v.Known]++
				if _, ok := merged.KnownSamples[v.Known]; !ok {
					merged.KnownSamples[v.Known] = v
				}
				continue
			}
			merged.NViolations++
			merged.Violations = append(merged.Violations, v)
		}
		conf = nil
		if len(loaderAtFault) > 0 {
			for _, l := range loaderAtFault {
				fmt.Fprintln(os.Stderr, "harness error: the loader refuses emitted code that the real tool chain compiles, vets and initialises:", l)
			}
			return 2
		}
	}
	// emitted code the loader refused (all checks but C04, which has them in its batch): the real
	// compiler decides whether that is a defect of the emitted code (C04's subject; this check goes
	// on with what it could load) or a limit of the loader (harness error: no verdict)
	if id != "C04" {
		var pcs []ConfCase
		for _, r := range results {
			if len(pcs) < 6 {
				pcs = append(pcs, r.ProblemCases...)
			}
		}
		if len(pcs) > 0 {
			_, viols, err := compileBatch(pcs)
			if err != nil {
				fmt.Fprintln(os.Stderr, "harness error: compile batch:", err)
				return 2
			}
			if len(loaderAtFault) > 0 {
				for _, l := range loaderAtFault {
					fmt.Fprintln(os.Stderr, "harness error: the loader refuses emitted code that the real tool chain compiles, vets and initialises:", l)
				}
				return 2
			}
			fmt.Printf("note: %d grammars were not run because their emitted code does not compile (C04's subject), e.g. %s\n", merged.Counters["emitted_code_problem"], viols[0].Desc)
		}
	}
	if len(conf) > 0 && os.Getenv("VERIF_NO_CONFORMANCE") == "" {
		validated, mism, err := runConformance(conf)
		if err != nil {
			fmt.Fprintln(os.Stderr, "harness error: conformance:", err)
			return 2
		}
		if len(mism) > 0 {
			for _, m := range mism {
				fmt.Fprintln(os.Stderr, "harness error: conformance mismatch:", m)
			}
			return 2
		}
		merged.Conformance += int64(validated)
		merged.Counters["conformance_grammars"] = int64(len(conf))
	}
	if chk.Post != nil {
		chk.Post(tier, merged)
	}
	// the tool crashed on grammars of this check's families: not this property's subject (C13's),
	// but never silent
	if n := merged.Counters["tool_panic"]; n > 0 && id != "C13" {
		for _, r := range results {
			if r.ToolPanic != "" {
				fmt.Printf("note: pigeon panicked on %d grammars this check enumerates (not run; the tool's totality is property C13), e.g. %s\n", n, r.ToolPanic)
				break
			}
		}
	}
	// simplest-first: shortest grammar+input first
	sort.SliceStable(merged.Violations, func(i, j int) bool {
		a, b := merged.Violations[i], merged.Violations[j]
		return len(a.Grammar)+len(a.InputHex) < len(b.Grammar)+len(b.InputHex)
	})
	wall := time.Since(start).Seconds()
	writeEvidence(chk, tier, merged, wall)
	findings := loadFindings()
	ids := make([]string, 0, len(merged.Known))
	for k := range merged.Known {
		ids = append(ids, k)
	}
	sort.Strings(ids)
	for _, k := range ids {
		s := merged.KnownSamples[k]
		text := ""
		for _, f := range findings {
			if f.ID == k && f.Property == id {
				text = f.Text
			}
		}
		fmt.Printf("KNOWN-FINDING: property=%s id=%s occurrences=%d e.g. grammar=%q input=%q gen=%s opts=%s observed=%q :: %s\n", id, k, merged.Known[k], oneLine(s.Grammar), s.Input, s.Gen, s.Opts, s.Desc, text)
	}
	fmt.Printf("%s %s: evaluations=%d grammars=%d nontrivial=%d rejected=%d skipped=%d exhaustive=%v wall=%.1fs counters=%v\n",
		id, tier, merged.Evaluations, merged.Grammars, merged.Nontrivial, merged.Rejected, merged.Skipped, merged.Exhaustive, wall, merged.Counters)
	if merged.NViolations == 0 {
		return 0
	}
	os.MkdirAll(filepath.Join(core.Root(), "replays"), 0o755)
	for i, v := range merged.Violations {
		if i >= 5 {
			break
		}
		p := filepath.Join("replays", fmt.Sprintf("%s-%d.json", id, i+1))
		b, _ := json.MarshalIndent(v, "", " ")
		os.WriteFile(filepath.Join(core.Root(), p), b, 0o644)
		fmt.Printf("VIOLATION property=%s replay=%s\n", id, p)
		fmt.Printf("  %s\n  grammar: %s\n  gen=%s input=%q opts=%s\n", v.Desc, oneLine(v.Grammar), v.Gen, v.Input, v.Opts)
		for _, d := range v.Diffs {
			fmt.Printf("  diff: %s\n", d)
		}
	}
	fmt.Printf("total violations: %d\n", merged.NViolations)
	return 1
}

func oneLine(s string) string {
	s = strings.TrimPrefix(s, "{\npackage vgram\n}\n\n")
	return strings.ReplaceAll(strings.TrimSpace(s), "\n", " ; ")
}

func writeEvidence(chk *Check, tier string, m *ShardResult, wall float64) {
	cov := map[string]any{
		"evaluations":                   m.Evaluations,
		"distinct_nontrivial":           m.Nontrivial,
		"rule":                          chk.Rule,
		"samples":                       m.Samples,
		"exhaustive":                    m.Exhaustive,
		"grammars":                      m.Grammars,
		"rejected_by_tool":              m.Rejected,
		"skipped_not_comparable":        m.Skipped,
		"counters":                      m.Counters,
		"traces_validated_against_impl": m.Conformance,
		"known_findings_reobserved":     m.Known,
	}
	if m.CapNote != "" {
		cov["cap_hit"] = m.CapNote
	}
	if m.States > 0 {
		cov["states"] = m.States
		cov["transitions"] = m.Transitions
	}
	if chk.Explanation != "" {
		cov["explanation"] = chk.Explanation
	}
	if len(m.Samples) == 0 {
		cov["samples"] = []any{"(no case explored)"}
	}
	ev := map[string]any{
		"property_id": chk.ID,
		"tier":        tier,
		"seed":        seedEnv(),
		"level":       chk.Level,
		"coverage":    cov,
		"assumptions": chk.Assumptions,
		"wall_s":      wall,
		"violations":  m.NViolations,
	}
	os.MkdirAll(filepath.Join(core.Root(), "evidence"), 0o755)
	b, _ := json.MarshalIndent(ev, "", " ")
	os.WriteFile(filepath.Join(core.Root(), "evidence", chk.ID+".json"), b, 0o644)
}
