package main

import (
	"fmt"

	"verif/engine/core"
	"verif/engine/peg"
	"verif/engine/rtapi"
)

func init() {
	register(&Check{
		ID: "C16", Level: "exploration", QuickSecs: 150, ThoroughSecs: 1200,
		Rule:        "grammars over {'a',\"\",[ab],.} x {?,*,+,&,!} x seq/choice up to N nodes (quick 4, thorough 5) INCLUDING repetitions with nullable bodies (\"\"*, (&'a')+, ('a'?)*), a recovery loop and left-recursive rules generated with -support-left-recursion (direct, indirect, and nullable-body repetitions inside leader and non-leader rules of a cycle); inputs over {a,b} up to L=2 (3); option sets {Memoize, Debug, Recover(false), AllowInvalidUTF8} (all 16 combinations quick: 8); for each the unbounded run (tick-capped) gives c = expressions evaluated, then EVERY budget n in 1..min(c,cap)+1 is run: the call returns, evaluates at most n expressions, reports 'max number of expressions parsed' (as the panic value under Recover(false)) iff the unbounded run needs more than n, and otherwise equals the unbounded observation; without Memoize/left recursion the unbounded count itself must equal the reference interpreter's number of expression evaluations (nothing escapes the budget). For the -optimize-parser build of every grammar the budgets {1, c/2, c-1, c, c+1} are run, each twice in one process (first and second call must agree; exhausted iff the standard build needs more). Non-trivial = a budget that is exhausted. Plus the cross family (cross.go, bodies <= 2 nodes - thorough a third of the 3-node bodies - generated plain, with -optimize-basic-latin, -optimize-grammar and as left-recursive variant).",
		Assumptions: []string{"E1 loader", "tick cap (loop iterations / function entries) stands in for 'never returns'"},
		Run:         runC16,
	})
}

func runC16(c *ShardCtx) {
	n, l, cap := 4, 2, 40
	if c.Thorough() {
		n, l, cap = 5, 3, 64
	}
	leaves := []*peg.Expr{peg.Lit("a"), peg.Lit(""), peg.Cls(false, false, "a", "b"), peg.Any()}
	en := peg.NewEnumerator(peg.Alphabet{Leaves: leaves, Unary: allUnary, Seq: true, Choice: true, MaxArity: 2})
	inputs := peg.Inputs([]string{"a", "b"}, l)
	// an invalid byte (default mode: an 'invalid encoding' error is on record when the budget runs out)
	inputs = append(inputs, []byte("\xff"), []byte("a\xff"), []byte("\xffa"), []byte("ab\xff"))
	var optSets []rtapi.RunOpts
	for m := 0; m < 16; m++ {
		if !c.Thorough() && m&8 != 0 {
			continue
		}
		optSets = append(optSets, rtapi.RunOpts{Memoize: m&1 != 0, Debug: m&2 != 0, NoRecover: m&4 != 0, AllowInvalid: m&8 != 0, Statistics: true})
	}
	type gcase struct {
		g   *peg.Grammar
		gen core.Gen
	}
	var cases []gcase
	for _, body := range en.UpTo(n) {
		cases = append(cases, gcase{wrap(body), core.Gen{}})
	}
	// recovery loop and left recursion
	cases = append(cases,
		gcase{&peg.Grammar{Rules: []*peg.Rule{{Name: "S", Expr: peg.Recover(peg.Seq(peg.Lit("a"), peg.Throw("l")), peg.Throw("l"), "l")}}}, core.Gen{}},
		gcase{&peg.Grammar{Rules: []*peg.Rule{{Name: "S", Expr: peg.Star(peg.Recover(peg.Throw("l"), peg.Lit(""), "l"))}}}, core.Gen{}},
		gcase{&peg.Grammar{Rules: []*peg.Rule{{Name: "S", Expr: peg.Choice(peg.Seq(peg.Ref("S"), peg.Lit("a")), peg.Lit("b"))}}}, core.Gen{LeftRec: true}},
		gcase{&peg.Grammar{Rules: []*peg.Rule{{Name: "S", Expr: peg.Choice(peg.Seq(peg.Ref("S"), peg.Lit("")), peg.Lit("a"))}}}, core.Gen{LeftRec: true}},
		gcase{&peg.Grammar{Rules: []*peg.Rule{{Name: "S", Expr: peg.Choice(peg.Seq(peg.Ref("A"), peg.Lit("a")), peg.Lit("b"))}, {Name: "A", Expr: peg.Choice(peg.Seq(peg.Ref("S"), peg.Lit("b")), peg.Lit("a"))}}}, core.Gen{LeftRec: true}},
	)
	// repetitions with a nullable body INSIDE rules of a left-recursive cycle (leader and non-leader):
	// the expression table is not used there, so the budget must stop them under Memoize too
	{
		loop := func() *peg.Expr { return peg.Star(peg.Star(peg.Lit("b"))) }
		cases = append(cases,
			gcase{&peg.Grammar{Rules: []*peg.Rule{{Name: "S", Expr: peg.Seq(peg.Ref("A"), peg.Not(peg.Any()))}, {Name: "A", Expr: peg.Choice(peg.Seq(peg.Ref("B"), peg.Lit("a")), peg.Lit("a"))},
				{Name: "B", Expr: peg.Choice(peg.Seq(peg.Ref("A"), peg.Lit("b")), peg.Seq(loop(), peg.Lit("a")))}}}, core.Gen{LeftRec: true}},
			gcase{&peg.Grammar{Rules: []*peg.Rule{{Name: "E", Expr: peg.Choice(peg.Seq(peg.Ref("E"), loop(), peg.Lit("a")), peg.Lit("a"))}}}, core.Gen{LeftRec: true}},
			gcase{&peg.Grammar{Rules: []*peg.Rule{{Name: "B", Expr: peg.Choice(peg.Seq(peg.Ref("Z"), peg.Lit("a")), peg.Seq(loop(), peg.Lit("a")))}, {Name: "Z", Expr: peg.Choice(peg.Seq(peg.Ref("B"), peg.Lit("b")), peg.Lit("a"))}}}, core.Gen{LeftRec: true}},
		)
	}
	// cross family (cross.go): every construct (predicates, blocks, throw / recover, rule calls, a
	// left-recursive rule) under the budget sweep, also generated with -optimize-basic-latin and
	// -optimize-grammar
	{
		cn := 2
		if c.Thorough() {
			cn = 3
		}
		for size := 1; size <= cn; size++ {
			for bi, body := range crossBodies(size) {
				if size == 3 && bi%3 != 0 {
					continue
				}
				hasR := false
				for _, r := range peg.RefsOf(body) {
					hasR = hasR || r == "R"
				}
				cases = append(cases, gcase{crossGrammar(body, false), core.Gen{}}, gcase{crossGrammar(body, false), core.Gen{BasicLatin: true}}, gcase{crossGrammar(body, false), core.Gen{OptGrammar: true}})
				if hasR {
					cases = append(cases, gcase{crossGrammar(body, true), core.Gen{LeftRec: true}})
				}
			}
		}
	}
	quirks := map[string]bool{}
	for _, q := range c.Quirks() {
		quirks[q] = true
	}
	for idx, gc := range cases {
		if !c.Mine(idx) {
			continue
		}
		if c.Expired("grammar " + itoa(idx)) {
			return
		}
		text := peg.Print(gc.g, nil)
		c.Res.Grammars++
		b := buildOrCount(c, text, gc.gen)
		if b == nil {
			continue
		}
		// the -optimize-parser build of the same grammar (no Statistics there: the count of the
		// standard build tells which budgets are exhausted), each budget also on a SECOND call of
		// the same process
		genOpt := gc.gen
		genOpt.Optimize = true
		bOpt := buildOrCount(c, text, genOpt)
		for _, in := range inputs {
			if bOpt != nil {
				o0 := rtapi.RunOpts{Statistics: true, TickCap: 20000}
				cnt0 := b.Run(in, &o0, nil)
				if !cnt0.Diverged {
					cnt := int(cnt0.ExprCnt)
					ou := rtapi.RunOpts{TickCap: 20000}
					baseOpt := bOpt.Run(in, &ou, nil)
					for _, n := range []int{1, cnt / 2, cnt - 1, cnt, cnt + 1} {
						if n < 1 || baseOpt.Diverged {
							continue
						}
						o := rtapi.RunOpts{MaxExpr: uint64(n), TickCap: 5000}
						first := bOpt.Run(in, &o, nil)
						o2 := o
						second := bOpt.RunWarm(in, &o2, nil)
						c.Res.Evaluations += 2
						desc := ""
						hasErr := func(ob *rtapi.Obs) bool {
							for _, e := range ob.Errs {
								if e.InnerKind == "maxexpr" {
									return true
								}
							}
							return ob.Panic == "maxexpr"
						}
						switch {
						case first.Diverged || second.Diverged:
							desc = fmt.Sprintf("-optimize-parser: Parse with MaxExpressions(%d) did not return", n)
						case cnt > n && !hasErr(first):
							desc = fmt.Sprintf("-optimize-parser: MaxExpressions(%d) exhausted (the parse needs %d) but no budget error: %s %v", n, cnt, first.Val, msgs(first))
						case cnt <= n && (first.Val != baseOpt.Val || fmt.Sprint(msgs(first)) != fmt.Sprint(msgs(baseOpt))):
							desc = fmt.Sprintf("-optimize-parser: MaxExpressions(%d) not exhausted (needs %d) but result differs: %s %v vs unbounded %s %v", n, cnt, first.Val, msgs(first), baseOpt.Val, msgs(baseOpt))
						case first.Val != second.Val || fmt.Sprint(msgs(first)) != fmt.Sprint(msgs(second)):
							desc = fmt.Sprintf("-optimize-parser: MaxExpressions(%d): the second call in the same process returns %s %v, the first %s %v", n, second.Val, msgs(second), first.Val, msgs(first))
						}
						if desc != "" {
							c.Report(Violation{Desc: desc, Grammar: text, Gen: genOpt.String(), Input: string(in), InputHex: hexOf(in), Opts: optsString(&o), Diffs: []string{desc}}, "")
						}
					}
				}
			}
			for _, os := range optSets {
				o0 := os
				o0.TickCap = 20000
				base := b.Run(in, &o0, nil)
				c.Res.Evaluations++
				cnt := int(base.ExprCnt)
				runaway := base.Diverged
				// the count itself must be right: without memoisation and left recursion every
				// expression evaluation of the reference interpreter is one counted evaluation
				if !runaway && !os.Memoize && !b.Flags.LeftRecursion && !gc.gen.OptGrammar { // (the optimizer changes the number of expressions)
					if ref := peg.Run(gc.g, in, nil, core.RefOptions(&o0, b.Flags)); ref.Outcome == peg.OResult && ref.Evals != cnt {
						c.Report(Violation{Desc: fmt.Sprintf("Stats.ExprCnt=%d but the parse evaluates %d expressions (reference count): evaluations escape the budget", cnt, ref.Evals), Grammar: text, Gen: gc.gen.String(), Input: string(in), InputHex: hexOf(in), Opts: optsString(&o0)}, "")
					}
				}
				// a Stats object re-used from earlier parses (its ExprCnt already above the budget):
				// the call must still return and evaluate at most n expressions itself
				if !os.Memoize && (runaway || cnt >= 2) {
					n := 1
					if !runaway && cnt > 2 {
						n = cnt - 1
					}
					if n > cap {
						n = cap
					}
					o := os
					o.MaxExpr, o.StatsPreload, o.TickCap = uint64(n), uint64(n)+3, 5000
					obs := b.Run(in, &o, nil)
					c.Res.Evaluations++
					desc := ""
					switch {
					case obs.Diverged:
						desc = fmt.Sprintf("Parse with MaxExpressions(%d) and a re-used Stats object (ExprCnt %d) did not return (tick cap %d exceeded)", n, o.StatsPreload, o.TickCap)
					case obs.ExprCnt-o.StatsPreload > uint64(n)+1:
						desc = fmt.Sprintf("MaxExpressions(%d) with a re-used Stats object (ExprCnt %d): %d expressions evaluated in this call", n, o.StatsPreload, obs.ExprCnt-o.StatsPreload)
					}
					if desc != "" {
						c.Report(Violation{Desc: desc, Grammar: text, Gen: gc.gen.String(), Input: string(in), InputHex: hexOf(in), Opts: optsString(&o), Diffs: []string{desc}}, "")
					}
				}
				top := cnt
				if runaway || top > cap {
					top = cap
				}
				for n := 1; n <= top+1; n++ {
					o := os
					o.MaxExpr = uint64(n)
					o.TickCap = 5000
					obs := b.Run(in, &o, nil)
					c.Res.Evaluations++
					c.ConfSample(60013, 2, text, gc.gen, b, in, o, nil, obs)
					var diffs []string
					exhausted := runaway || cnt > n
					hasBudgetErr := obs.Panic == "maxexpr"
					for _, e := range obs.Errs {
						if e.InnerKind == "maxexpr" {
							hasBudgetErr = true
						}
					}
					if exhausted {
						c.Res.Nontrivial++
					}
					switch {
					case obs.Diverged:
						diffs = append(diffs, fmt.Sprintf("Parse with MaxExpressions(%d) did not return (tick cap %d exceeded)", n, o.TickCap))
					case obs.ExprCnt > uint64(n)+1:
						diffs = append(diffs, fmt.Sprintf("MaxExpressions(%d): %d expressions evaluated", n, obs.ExprCnt))
					case exhausted && !hasBudgetErr:
						diffs = append(diffs, fmt.Sprintf("MaxExpressions(%d) exhausted (unbounded run needs %d, runaway=%v) but no 'max number of expressions parsed' error: val=%s errs=%v panic=%q", n, cnt, runaway, obs.Val, msgs(obs), obs.Panic))
					case !exhausted && (obs.Val != base.Val || fmt.Sprint(msgs(obs)) != fmt.Sprint(msgs(base)) || obs.Panic != base.Panic):
						diffs = append(diffs, fmt.Sprintf("MaxExpressions(%d) not exhausted (needs %d) but result differs: %s %v vs unbounded %s %v", n, cnt, obs.Val, msgs(obs), base.Val, msgs(base)))
					case exhausted && o.NoRecover && obs.Panic != "maxexpr":
						diffs = append(diffs, fmt.Sprintf("Recover(false): want the budget error as panic value, got %q", obs.Panic))
					}
					if (n == 1 || n == top/2) && !obs.Diverged && len(diffs) == 0 {
						// the SAME option values passed to a second call (a caller keeping limit :=
						// MaxExpressions(n) for all its inputs): the budget applies again
						ow := os
						ow.MaxExpr, ow.TickCap = uint64(n), 5000
						again := b.RunWarmReuse(in, &ow, nil)
						c.Res.Evaluations++
						if again.Diverged || again.Val != obs.Val || fmt.Sprint(msgs(again)) != fmt.Sprint(msgs(obs)) || again.Panic != obs.Panic {
							diffs = append(diffs, fmt.Sprintf("MaxExpressions(%d): a second call with the same option VALUES returns %s %v %q (did not return: %v), the first %s %v %q", n, again.Val, msgs(again), again.Panic, again.Diverged, obs.Val, msgs(obs), obs.Panic))
						}
					}
					if n == top+1 && !obs.Diverged && len(diffs) == 0 {
						ow := os
						ow.MaxExpr, ow.TickCap = uint64(n), 5000
						again := b.RunWarm(in, &ow, nil)
						c.Res.Evaluations++
						if again.Val != obs.Val || fmt.Sprint(msgs(again)) != fmt.Sprint(msgs(obs)) || again.Panic != obs.Panic {
							diffs = append(diffs, fmt.Sprintf("MaxExpressions(%d): the second call in the same process returns %s %v %q, the first %s %v %q", n, again.Val, msgs(again), again.Panic, obs.Val, msgs(obs), obs.Panic))
						}
					}
					if n == 2 && len(in) == 1 {
						c.Sample(map[string]any{"grammar": oneLine(text), "input": string(in), "opts": optsString(&o), "unbounded_exprs": cnt, "budget": n, "errors": msgs(obs)})
					}
					if len(diffs) > 0 {
						known := ""
						// D11: with Memoize a repetition whose body matches empty is
						// served from the memo table forever without charging the budget
						if quirks["memo-no-charge"] && o.Memoize && obs.Diverged && runaway {
							if ref := peg.Run(gc.g, in, nil, peg.Options{LeftRec: b.Flags.LeftRecursion}); ref.Outcome == peg.ODiverge && ref.Reentry == "" && ref.DivergeMemo {
								known = "memo-no-charge"
							}
						}
						c.Report(Violation{Desc: diffs[0], Grammar: text, Gen: gc.gen.String(), Input: string(in), InputHex: hexOf(in), Opts: optsString(&o), Diffs: diffs}, known)
					}
				}
			}
		}
	}
}
