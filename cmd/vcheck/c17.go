package main

import (
	"fmt"
	"sort"

	"verif/engine/core"
	"verif/engine/peg"
	"verif/engine/rtapi"
)

func init() {
	register(&Check{
		ID: "C17", Level: "exploration", QuickSecs: 150, ThoroughSecs: 1200,
		Rule:        "grammars over {., [^a], [a\\uFFFD], \"\\uFFFD\", 'a', \"é\"} x {*, !, ?} x seq/choice up to N nodes (quick 4, thorough 5); ALL inputs up to length L (quick 3, thorough 4) over the bytes {a, C3, A9, E2, 82, FF, C0, ED, A0, 80} (valid 2-byte sequence, truncated 3-byte sequence, overlong lead, surrogate lead, stray continuation); AllowInvalidUTF8 on/off. An independent RFC 3629 decoder gives (rune,width) per offset; the reference matches over those and logs every offset advanced onto. Checked: value/text are the original bytes and offsets count bytes (exact value comparison), with the option off the set of positions carrying an 'invalid encoding' error equals the set of invalid bytes advanced onto, with it on there is none. Non-trivial = the parser advanced onto at least one invalid byte.",
		Assumptions: []string{"E1 loader", "own RFC 3629 decoder in engine/peg"},
		Run:         runC17,
	})
}

func encodingOracle(g *peg.Grammar, b *core.Built, in []byte, o *rtapi.RunOpts, ref *peg.Result, obs *rtapi.Obs) []string {
	want := map[int]bool{}
	if !o.AllowInvalid {
		for _, off := range ref.Advanced {
			if off < len(in) {
				if _, _, valid := peg.Decode(in[off:]); !valid {
					want[off] = true
				}
			}
		}
	}
	got := map[int]bool{}
	for _, e := range obs.Errs {
		if e.InnerKind == "encoding" {
			got[e.Pos[2]] = true
		}
	}
	if len(want) != len(got) {
		return []string{fmt.Sprintf("invalid encoding errors at offsets %v, want %v", keys(got), keys(want))}
	}
	for k := range want {
		if !got[k] {
			return []string{fmt.Sprintf("invalid encoding errors at offsets %v, want %v", keys(got), keys(want))}
		}
	}
	if len(want) > 0 && obs.ErrNil {
		return []string{"invalid bytes were advanced onto but Parse returned a nil error"}
	}
	return nil
}

func keys(m map[int]bool) []int {
	var out []int
	for k := range m {
		out = append(out, k)
	}
	sort.Ints(out)
	return out
}

func runC17(c *ShardCtx) {
	n, l := 4, 3
	if c.Thorough() {
		n, l = 5, 4
	}
	leaves := []*peg.Expr{peg.Any(), peg.Cls(true, false, "a"), peg.Cls(false, false, "a", "�"), peg.Lit("�"), peg.Lit("a"), peg.Lit("é")}
	en := peg.NewEnumerator(peg.Alphabet{Leaves: leaves, Unary: []peg.Kind{peg.KStar, peg.KNot, peg.KOpt}, Seq: true, Choice: true, MaxArity: 2})
	alpha := []string{"a", "\xc3", "\xa9", "\xe2", "\x82", "\xff", "\xc0", "\xed", "\xa0", "\x80"}
	inputs := peg.Inputs(alpha, l)
	nontriv := func(ref *peg.Result, obs *rtapi.Obs) bool {
		for _, e := range ref.Errs {
			if e.Kind == "encoding" {
				return true
			}
		}
		return false
	}
	fam := &family{gens: gens2, inputs: inputs, opts: []rtapi.RunOpts{{MaxExpr: 300}, {MaxExpr: 300, AllowInvalid: true}}, nontrivial: nontriv,
		cmp: core.CmpOpts{IgnoreEncodingErrs: true}, extra: encodingOracle, confEvery: 11, confQuota: 1}
	idx := 0
	for size := 1; size <= n; size++ {
		for _, body := range en.Size(size) {
			idx++
			if !c.Mine(idx) {
				continue
			}
			if c.Expired("cut at body size " + itoa(size)) {
				return
			}
			runGrammar(c, wrap(body), fam)
		}
	}
}
