package main

import (
	"fmt"
	"sort"

	"verif/engine/core"
	"verif/engine/peg"
	"verif/engine/rtapi"
)

func init() {
	register(&Check{
		ID: "C17", Level: "exploration", QuickSecs: 150, ThoroughSecs: 1200,
		Rule:        "grammars over {., [^a], [a\\uFFFD], \"\\uFFFD\", 'a', \"é\"} x {*, !, ?} x seq/choice up to N nodes (quick 4, thorough 5); ALL inputs up to length L (quick 3, thorough 4) over the bytes {a, C3, A9, E2, 82, FF, C0, ED, A0, 80} (valid 2-byte sequence, truncated 3-byte sequence, overlong lead, surrogate lead, stray continuation); AllowInvalidUTF8 on/off; plus left-recursive rules E <- E tail / 'a' followed by .* (generated with -support-left-recursion, with and without -optimize-parser) where the invalid byte is first met inside a discarded growth iteration. An independent RFC 3629 decoder gives (rune,width) per offset; the reference matches over those and logs every offset advanced onto. Checked: value/text are the original bytes and offsets count bytes (exact value comparison), with the option off the set of positions carrying an 'invalid encoding' error equals the set of invalid bytes advanced onto, with it on there is none. Non-trivial = the parser advanced onto at least one invalid byte.",
		Assumptions: []string{"E1 loader", "own RFC 3629 decoder in engine/peg"},
		Run:         runC17,
	})
}

func encodingOracle(g *peg.Grammar, b *core.Built, in []byte, o *rtapi.RunOpts, ref *peg.Result, obs *rtapi.Obs) []string {
	want := map[int]bool{}
	if !o.AllowInvalid {
		for _, off := range ref.Advanced {
			if off < len(in) {
				if _, _, valid := peg.Decode(in[off:]); !valid {
					want[off] = true
				}
			}
		}
	}
	got := map[int]bool{}
	for _, e := range obs.Errs {
		if e.InnerKind == "encoding" {
			got[e.Pos[2]] = true
		}
	}
	same := len(want) == len(got)
	for k := range want {
		if !got[k] {
			same = false
		}
	}
	if !same {
		tag := ""
		if b.Flags.LeftRecursion && ref.Outcome == peg.OResult {
			// finding D23: do the positions agree once the errors of discarded growth
			// iterations are dropped (the reference's own error list models that)?
			alt := map[int]bool{}
			for _, e := range ref.Errs {
				if e.Kind == "encoding" {
					alt[e.Off] = true
				}
			}
			ok := len(alt) == len(got)
			for k := range alt {
				if !got[k] {
					ok = false
				}
			}
			if ok {
				tag = quirkTag + "lr-rollback-encoding|"
			}
		}
		return []string{fmt.Sprintf("%sinvalid encoding errors at offsets %v, want %v", tag, keys(got), keys(want))}
	}
	if len(want) > 0 && obs.ErrNil {
		return []string{"invalid bytes were advanced onto but Parse returned a nil error"}
	}
	return nil
}

// quirkTag prefixes a diff that an extra oracle attributes to a known finding.
const quirkTag = "@quirk:"

func keys(m map[int]bool) []int {
	var out []int
	for k := range m {
		out = append(out, k)
	}
	sort.Ints(out)
	return out
}

func runC17(c *ShardCtx) {
	n, l := 4, 3
	if c.Thorough() {
		n, l = 5, 4
	}
	leaves := []*peg.Expr{peg.Any(), peg.Cls(true, false, "a"), peg.Cls(false, false, "a", "�"), peg.Lit("�"), peg.Lit("a"), peg.Lit("é")}
	en := peg.NewEnumerator(peg.Alphabet{Leaves: leaves, Unary: []peg.Kind{peg.KStar, peg.KNot, peg.KOpt}, Seq: true, Choice: true, MaxArity: 2})
	alpha := []string{"a", "\xc3", "\xa9", "\xe2", "\x82", "\xff", "\xc0", "\xed", "\xa0", "\x80"}
	inputs := peg.Inputs(alpha, l)
	nontriv := func(ref *peg.Result, obs *rtapi.Obs) bool {
		for _, e := range ref.Errs {
			if e.Kind == "encoding" {
				return true
			}
		}
		return false
	}
	fam := &family{gens: gens2, inputs: inputs, opts: []rtapi.RunOpts{{MaxExpr: 300}, {MaxExpr: 300, AllowInvalid: true}}, nontrivial: nontriv,
		cmp: core.CmpOpts{IgnoreEncodingErrs: true}, extra: encodingOracle, confEvery: 11, confQuota: 1}
	idx := 0
	// left-recursive family: an invalid byte first advanced onto inside the last (failing)
	// growth iteration, whose errors are rolled back, and reached again afterwards
	{
		lit := peg.Lit
		lrFam := *fam
		lrFam.gens = []core.Gen{{LeftRec: true}, {LeftRec: true, Optimize: true}}
		lrFam.inputs = peg.Inputs([]string{"a", "\xc3", "\xa9", "\xff", "\x80"}, l+1)
		for _, tail := range []*peg.Expr{peg.Seq(lit("a"), lit("a")), peg.Seq(lit("a"), peg.Any(), lit("a")), peg.Seq(peg.Cls(true, false, "�"), lit("a")), lit("a")} {
			for _, rest := range []*peg.Expr{peg.Star(peg.Any()), peg.Opt(peg.Cls(false, false, "a", "�")), lit("")} {
				idx++
				if !c.Mine(idx) {
					continue
				}
				g := &peg.Grammar{Rules: []*peg.Rule{
					{Name: "S", Expr: peg.Action(100, peg.Seq(peg.Label("v", peg.Ref("E")), peg.Label("r", rest.Clone())), "v", "r")},
					{Name: "E", Expr: peg.Choice(peg.Seq(peg.Ref("E"), tail.Clone()), lit("a"))}}}
				runGrammar(c, g, &lrFam)
			}
		}
	}
	for size := 1; size <= n; size++ {
		for _, body := range en.Size(size) {
			idx++
			if !c.Mine(idx) {
				continue
			}
			if c.Expired("cut at body size " + itoa(size)) {
				return
			}
			g := wrap(body)
			f := *fam
			if g.Has(peg.KClass) {
				f.gens = gens4 // classes have a second matching path under -optimize-basic-latin
			}
			runGrammar(c, g, &f)
		}
	}
}
