package main

import (
	"fmt"
	"sort"

	"verif/engine/core"
	"verif/engine/peg"
	"verif/engine/rtapi"
)

func init() {
	register(&Check{
		ID: "C17", Level: "exploration", QuickSecs: 150, ThoroughSecs: 1200,
		Rule:        "grammars over {., [^a], [a\\uFFFD], \"\\uFFFD\", 'a', \"é\"} x {*, !, ?} x seq/choice up to N nodes (quick 4, thorough 5); ALL inputs up to length L (quick 3, thorough 4) over the bytes {a, C3, A9, E2, 82, FF, C0, ED, A0, 80} (valid 2-byte sequence, truncated 3-byte sequence, overlong lead, surrogate lead, stray continuation); AllowInvalidUTF8 on/off; plus a literal join family (every ordered pair of 10 literals holding whole or partial multi-byte sequences, adjacent or separated by an inlined rule, generated with -optimize-grammar, AllowInvalidUTF8, inputs over 7 bytes up to 4: match and matched bytes against the bytewise reference); plus left-recursive rules E <- E tail / 'a' followed by .* (generated with -support-left-recursion, with and without -optimize-parser) where the invalid byte is first met inside a discarded growth iteration. plus table hits in front of an invalid byte (a rule evaluated twice at one offset by 3 templates x 3 rule bodies, followed by a matcher that consumes the next rune; default options and Memoize, AllowInvalidUTF8 on/off). An independent RFC 3629 decoder gives (rune,width) per offset; the reference matches over those and logs every offset advanced onto. Checked: value/text are the original bytes and offsets count bytes (exact value comparison), with the option off the set of positions carrying an 'invalid encoding' error equals the set of invalid bytes advanced onto, with it on there is none. Non-trivial = the parser advanced onto at least one invalid byte. Plus the cross family (cross.go, 16 flag sets, 14 inputs with invalid bytes) and call histories (every ordered pair of calls over 5 inputs x {default, AllowInvalidUTF8, the option given twice, the option preceded by its opposite, ParseReader}: the second call returns what it returns alone).",
		Assumptions: []string{"E1 loader", "own RFC 3629 decoder in engine/peg"},
		Run:         runC17,
	})
}

func encodingOracle(g *peg.Grammar, b *core.Built, in []byte, o *rtapi.RunOpts, ref *peg.Result, obs *rtapi.Obs) []string {
	want := map[int]bool{}
	if !o.AllowInvalid {
		for _, off := range ref.Advanced {
			if off < len(in) {
				if _, _, valid := peg.Decode(in[off:]); !valid {
					want[off] = true
				}
			}
		}
	}
	got := map[int]bool{}
	for _, e := range obs.Errs {
		if e.InnerKind == "encoding" {
			got[e.Pos[2]] = true
		}
	}
	same := len(want) == len(got)
	for k := range want {
		if !got[k] {
			same = false
		}
	}
	if !same {
		tag := ""
		if b.Flags.LeftRecursion && ref.Outcome == peg.OResult {
			// finding D23: do the positions agree once the errors of discarded growth
			// iterations are dropped (the reference's own error list models that)?
			alt := map[int]bool{}
			for _, e := range ref.Errs {
				if e.Kind == "encoding" {
					alt[e.Off] = true
				}
			}
			ok := len(alt) == len(got)
			for k := range alt {
				if !got[k] {
					ok = false
				}
			}
			if ok {
				tag = quirkTag + "lr-rollback-encoding|"
			}
		}
		return []string{fmt.Sprintf("%sinvalid encoding errors at offsets %v, want %v", tag, keys(got), keys(want))}
	}
	if len(want) > 0 && obs.ErrNil {
		return []string{"invalid bytes were advanced onto but Parse returned a nil error"}
	}
	return nil
}

// quirkTag prefixes a diff that an extra oracle attributes to a known finding.
const quirkTag = "@quirk:"

func keys(m map[int]bool) []int {
	var out []int
	for k := range m {
		out = append(out, k)
	}
	sort.Ints(out)
	return out
}

func runC17(c *ShardCtx) {
	n, l := 4, 3
	if c.Thorough() {
		n, l = 5, 4
	}
	leaves := []*peg.Expr{peg.Any(), peg.Cls(true, false, "a"), peg.Cls(false, false, "a", "�"), peg.Lit("�"), peg.Lit("a"), peg.Lit("é")}
	en := peg.NewEnumerator(peg.Alphabet{Leaves: leaves, Unary: []peg.Kind{peg.KStar, peg.KNot, peg.KOpt}, Seq: true, Choice: true, MaxArity: 2})
	alpha := []string{"a", "\xc3", "\xa9", "\xe2", "\x82", "\xff", "\xc0", "\xed", "\xa0", "\x80"}
	inputs := peg.Inputs(alpha, l)
	nontriv := func(ref *peg.Result, obs *rtapi.Obs) bool {
		for _, e := range ref.Errs {
			if e.Kind == "encoding" {
				return true
			}
		}
		return false
	}
	fam := &family{gens: gens2, inputs: inputs, opts: []rtapi.RunOpts{{MaxExpr: 300}, {MaxExpr: 300, AllowInvalid: true}}, nontrivial: nontriv,
		cmp: core.CmpOpts{IgnoreEncodingErrs: true}, extra: encodingOracle, confEvery: 11, confQuota: 1}
	idx := 0
	// histories: every ordered pair of calls over {valid, invalid inputs} x {default, AllowInvalidUTF8,
	// the option given twice, the option preceded by its opposite (a wrapper's defaults in front of
	// the caller's options), through ParseReader}: the second call returns what it returns alone - in
	// particular its 'invalid encoding' errors do not depend on what an earlier call allowed
	for hv := 0; hv < 2; hv++ {
		idx++
		if !c.Mine(idx) {
			continue
		}
		g := wrap(peg.Star(peg.Choice(peg.Lit("a"), peg.Cls(true, false, "b"), peg.Any())))
		gen := core.Gen{Optimize: hv == 1}
		text := peg.Print(g, nil)
		b := buildOrCount(c, text, gen)
		if b == nil {
			continue
		}
		c.Res.Grammars++
		type hc struct {
			in string
			o  rtapi.RunOpts
		}
		var calls []hc
		for _, in := range []string{"aa", "a\xffa", "\xc3", "\xe2\x82", "a\x80"} {
			for _, o := range []rtapi.RunOpts{{MaxExpr: 300}, {MaxExpr: 300, AllowInvalid: true}, {MaxExpr: 300, AllowInvalid: true, Doubled: true}, {MaxExpr: 300, Shadowed: true}, {MaxExpr: 300, AllowInvalid: true, Shadowed: true},
				{MaxExpr: 300, AllowInvalid: true, UseReader: true}, {MaxExpr: 300, Doubled: true}} {
				calls = append(calls, hc{in, o})
			}
		}
		key := func(o *rtapi.Obs) string { return fmt.Sprintf("val=%s errs=%v panic=%q", o.Val, msgs(o), o.Panic) }
		solo := make([]string, len(calls))
		for i, cl := range calls {
			o := cl.o
			solo[i] = key(b.Run([]byte(cl.in), &o, nil))
		}
		for i := range calls {
			for j := range calls {
				oi, oj := calls[i].o, calls[j].o
				b.Run([]byte(calls[i].in), &oi, nil)
				got := key(b.RunWarm([]byte(calls[j].in), &oj, nil))
				c.Res.Evaluations++
				c.Res.Nontrivial++
				if got != solo[j] {
					c.Report(Violation{Desc: fmt.Sprintf("Parse(%q, %s) after Parse(%q, %s) returns %s; alone it returns %s", calls[j].in, optsString(&calls[j].o), calls[i].in, optsString(&calls[i].o), got, solo[j]),
						Grammar: text, Gen: gen.String(), Input: calls[j].in, InputHex: hexOf([]byte(calls[j].in)), Opts: optsString(&calls[j].o) + " after " + optsString(&calls[i].o)}, "")
				}
			}
		}
	}
	// cross family (cross.go): every construct under every flag set on inputs with invalid bytes
	{
		var bad [][]byte
		for _, x := range []string{"", "a", "\xff", "a\xff", "\xffa", "ab\x80", "a\xc3", "\xc3\xa9", "a\x80b", "\xe2\x82", "aB\xff", "\xed\xa0\x80", "\xef\xbf\xbd", "\xef\xbf"} {
			bad = append(bad, []byte(x))
		}
		if !runCross(c, &idx, &crossSpec{maxSize: 3, gens: gens16, inputs: bad, opts: fam.opts, scripts: crossPredScripts, nontrivial: nontriv,
			cmp: core.CmpOpts{IgnoreEncodingErrs: true, SkipNoMatch: true, SkipLog: true}, extra: encodingOracle}) {
			return
		}
	}
	// left-recursive family: an invalid byte first advanced onto inside the last (failing)
	// growth iteration, whose errors are rolled back, and reached again afterwards
	{
		lit := peg.Lit
		lrFam := *fam
		lrFam.gens = []core.Gen{{LeftRec: true}, {LeftRec: true, Optimize: true}}
		lrFam.inputs = peg.Inputs([]string{"a", "\xc3", "\xa9", "\xff", "\x80"}, l+1)
		for _, tail := range []*peg.Expr{peg.Seq(lit("a"), lit("a")), peg.Seq(lit("a"), peg.Any(), lit("a")), peg.Seq(peg.Cls(true, false, "�"), lit("a")), lit("a")} {
			for _, rest := range []*peg.Expr{peg.Star(peg.Any()), peg.Opt(peg.Cls(false, false, "a", "�")), lit("")} {
				idx++
				if !c.Mine(idx) {
					continue
				}
				g := &peg.Grammar{Rules: []*peg.Rule{
					{Name: "S", Expr: peg.Action(100, peg.Seq(peg.Label("v", peg.Ref("E")), peg.Label("r", rest.Clone())), "v", "r")},
					{Name: "E", Expr: peg.Choice(peg.Seq(peg.Ref("E"), tail.Clone()), lit("a"))}}}
				runGrammar(c, g, &lrFam)
			}
		}
	}
	// table hits in front of an invalid byte: a rule H evaluated twice at one offset (first alternative
	// fails after it, lookahead, loop), followed by a matcher that consumes the NEXT rune; with
	// Memoize(true) the second evaluation is answered from the table, and with -support-left-recursion
	// a leader's result always is - the position restored by a hit must carry the rune and the width
	// of the byte that follows (1 for an invalid byte)
	{
		lit := peg.Lit
		hs := []func() *peg.Expr{func() *peg.Expr { return peg.Plus(lit("a")) }, func() *peg.Expr { return peg.Seq(lit("a"), peg.Opt(lit("a"))) }, func() *peg.Expr { return peg.Choice(lit("aa"), lit("a")) }}
		tops := []func() *peg.Expr{
			func() *peg.Expr { return peg.Choice(peg.Seq(peg.Ref("H"), lit("x"), peg.Star(peg.Any())), peg.Seq(peg.Label("h", peg.Ref("H")), peg.Label("r", peg.Star(peg.Any())))) },
			func() *peg.Expr { return peg.Seq(peg.And(peg.Ref("H")), peg.Ref("H"), peg.Cls(true, false, "a"), peg.Star(peg.Any())) },
			func() *peg.Expr { return peg.Seq(peg.Star(peg.Choice(peg.Seq(peg.Ref("H"), lit("x")), peg.Seq(peg.Ref("H"), peg.Cls(false, false, "\ufffd", "x")))), peg.Star(peg.Any())) },
		}
		mFam := *fam
		mFam.opts = []rtapi.RunOpts{{MaxExpr: 600}, {MaxExpr: 600, AllowInvalid: true}, {MaxExpr: 600, Memoize: true}, {MaxExpr: 600, Memoize: true, AllowInvalid: true}}
		mFam.inputs = peg.Inputs([]string{"a", "x", "\xff", "\xc3", "\xa9", "\x80"}, l+1)
		for _, h := range hs {
			for _, t := range tops {
				idx++
				if !c.Mine(idx) {
					continue
				}
				g := &peg.Grammar{Rules: []*peg.Rule{{Name: "S", Expr: peg.Action(100, peg.Label("v", t()), "v")}, {Name: "H", Expr: h()}}}
				runGrammar(c, g, &mFam)
			}
		}
	}
	// -optimize-grammar: adjacent literals holding pieces of multi-byte sequences (written with \x
	// escapes) are matched bytewise; joining them must not change what they match
	{
		pieces := []string{"k", "\xc3", "\xa9", "k\xc3", "\xa9k", "\xe2\x82", "\xac", "é", "\xe2", "\x82\xac"}
		joinInputs := peg.Inputs([]string{"k", "\xc3", "\xa9", "\xe2", "\x82", "\xac", "\xff"}, 4)
		check := func(g *peg.Grammar) {
			text := peg.Print(g, nil)
			c.Res.Grammars++
			for _, gen := range []core.Gen{{OptGrammar: true}, {OptGrammar: true, Optimize: true}} {
				b := buildOrCount(c, text, gen)
				if b == nil {
					continue
				}
				for _, in := range joinInputs {
					o := rtapi.RunOpts{MaxExpr: 300, AllowInvalid: true}
					obs := b.Run(in, &o, nil)
					ref := peg.Run(g, in, nil, core.RefOptions(&o, b.Flags))
					c.Res.Evaluations++
					if ref.Outcome != peg.OResult {
						c.Res.Skipped++
						continue
					}
					if ref.Matched {
						c.Res.Nontrivial++
					}
					desc := ""
					switch {
					case obs.Diverged:
						desc = "did not return"
					case failed(obs) == ref.Matched:
						desc = fmt.Sprintf("-optimize-grammar: match=%v, bytewise reference match=%v", !failed(obs), ref.Matched)
					case ref.Matched && obs.Flat != ref.Flat:
						desc = fmt.Sprintf("-optimize-grammar: matched bytes %q, reference %q", obs.Flat, ref.Flat)
					}
					if desc != "" {
						c.Report(Violation{Desc: desc, Grammar: text, Gen: gen.String(), Input: string(in), InputHex: hexOf(in), Opts: optsString(&o), Diffs: []string{desc}}, "",
							&ConfCase{Text: text, Gen: gen, HasState: b.Flags.HasState(), HasMemo: b.Flags.HasMemo(), Runs: []ConfRun{{Input: in, Opts: o, Obs: obs}}})
					}
				}
			}
		}
		for _, x := range pieces {
			for _, y := range pieces {
				idx++
				if !c.Mine(idx) {
					continue
				}
				if c.Expired("literal join family") {
					return
				}
				check(&peg.Grammar{Rules: []*peg.Rule{{Name: "S", Expr: peg.Seq(peg.Lit(x), peg.Lit(y), peg.Star(peg.Any()))}}})
				if len(x) == 1 || len(y) == 1 {
					check(&peg.Grammar{Rules: []*peg.Rule{{Name: "S", Expr: peg.Seq(peg.Lit(x), peg.Ref("T"), peg.Lit("\xa9"), peg.Not(peg.Any()))}, {Name: "T", Expr: peg.Lit(y)}}})
				}
			}
		}
	}
	for size := 1; size <= n; size++ {
		for _, body := range en.Size(size) {
			idx++
			if !c.Mine(idx) {
				continue
			}
			if c.Expired("cut at body size " + itoa(size)) {
				return
			}
			g := wrap(body)
			f := *fam
			if g.Has(peg.KClass) {
				f.gens = gens4 // classes have a second matching path under -optimize-basic-latin
			}
			runGrammar(c, g, &f)
		}
	}
}
