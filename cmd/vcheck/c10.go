package main

import (
	"fmt"
	"strings"

	"verif/engine/core"
	"verif/engine/peg"
	"verif/engine/rtapi"
)

func init() {
	register(&Check{
		ID: "C10", Level: "exploration", QuickSecs: 150, ThoroughSecs: 1200,
		Rule:        "class range family (every ordered pair of 9 ranges - disjoint, touching, overlapping, nested, equal - in one class, with and without i, positive and inverted, 18 one-rune inputs at the range ends); same-text family (every ordered pair of 9 terminals equal up to case or spelling - \"ab\"i \"AB\"i \"aB\"i \"ab\" `ab` [ab]i [BA]i [\\x61] [a] - failing at one or at different offsets: expected lists name each by its own spelling); histories: one action block inside every kind of construct (operand of ! and &, repetition, failing alternative, label, both sides of a recovery operator, called rule, behind a state block, left-recursive rule) x calls {7 inputs x no fault / error / panic(error) / panic(string) x Recover on/off}, EVERY ordered pair of calls in one process on the standard and the optimized parser: the second call answers like a first call; union of families: (a) block-free bodies over the C01 alphabet up to N nodes (quick 4, thorough 5); (b) bodies with actions, code predicates (both results), state blocks and labels up to 3 nodes; (c) state-store bodies over {'a','b',#{},&{}} up to 4 nodes with all three store kinds; (d) fault scripts (error / panic(error) / panic(string) per block, <=2 faulting) under Recover(true) and Recover(false); (e) left-recursive rules (direct, with action and state, indirect) generated with -support-left-recursion. For X in the subsets of {-optimize-basic-latin, -optimize-grammar} (plus -support-left-recursion for (e)): parser(X) vs parser(X + -optimize-parser), real vs real, on all inputs over {a,b} up to L=3: same value, same complete error list (text, order, Inner identity), same escaping panic, same block log; and the optimized static code contains the state machinery iff the grammar has a #{} block. Non-trivial = the case has a code block invocation, an error, or backtracking. Plus the cross family (cross.go, bodies <= 3 nodes, X over {-optimize-basic-latin, -optimize-grammar, -support-left-recursion}, fault scripts - every block in turn returning an error / panicking -, Recover on/off, inputs with invalid bytes) and the two-recovery-operator family of C14.",
		Assumptions: []string{"E1 loader", "both sides are the real builder + runtime; the reference is consulted only to count non-trivial cases"},
		Run:         runC10,
	})
}

func eventKeyNoState(e rtapi.Event) string {
	return fmt.Sprintf("%c%d@%v t=%q l=%v g=%s e=%d", e.Kind, e.ID, e.Pos, e.Text, e.Labels, e.Global, e.ErrSeq)
}

func obsDiff(a, b *rtapi.Obs, maskState bool) []string {
	var d []string
	if a.Val != b.Val {
		d = append(d, fmt.Sprintf("value: %s vs %s", a.Val, b.Val))
	}
	if fmt.Sprint(msgs(a)) != fmt.Sprint(msgs(b)) {
		d = append(d, fmt.Sprintf("errors: %q vs %q", msgs(a), msgs(b)))
	} else {
		for i := range a.Errs {
			if a.Errs[i].InnerSeq != b.Errs[i].InnerSeq || a.Errs[i].InnerKind != b.Errs[i].InnerKind {
				d = append(d, fmt.Sprintf("error %d: Inner differs", i))
			}
		}
	}
	if a.Panic != b.Panic {
		d = append(d, fmt.Sprintf("panic: %q vs %q", a.Panic, b.Panic))
	}
	if a.ErrNil != b.ErrNil || a.TypeOK != b.TypeOK {
		d = append(d, "error nil-ness / type differs")
	}
	key := rtapi.Event.String
	if maskState {
		key = eventKeyNoState
	}
	if x := core.CompareLogs(a.Log, b.Log, key); x != "" {
		d = append(d, x)
	}
	for _, p := range append(append([]string{}, a.Pool...), b.Pool...) {
		d = append(d, "state pool discipline: "+p)
	}
	return d
}

func runC10(c *ShardCtx) {
	n := 4
	if c.Thorough() {
		n = 5
	}
	inputs := peg.Inputs([]string{"a", "b"}, 3)
	idx := 0
	var inputs0 = inputs
	var diffAll func(g *peg.Grammar, xs []core.Gen, opts []rtapi.RunOpts, scripts []map[int]*rtapi.Block)
	mustBuild := false
	diff := func(g *peg.Grammar, xs []core.Gen, opts []rtapi.RunOpts, scripts []map[int]*rtapi.Block) {
		idx++
		if !c.Mine(idx) {
			return
		}
		diffAll(g, xs, opts, scripts)
	}
	diffAll = func(g *peg.Grammar, xs []core.Gen, opts []rtapi.RunOpts, scripts []map[int]*rtapi.Block) {
		text := peg.Print(g, nil)
		c.Res.Grammars++
		if len(scripts) == 0 {
			scripts = []map[int]*rtapi.Block{nil}
		}
		hasStateBlock := g.Has(peg.KState)
		for _, x := range xs {
			y := x
			y.Optimize = true
			a := buildOrCount(c, text, x)
			b := buildOrCount(c, text, y)
			if a == nil || b == nil {
				if a == nil && b == nil && mustBuild {
					// (a family whose grammars are valid by construction explored nothing here)
					panic(&core.HarnessError{Msg: "a grammar of a family that is valid by construction was rejected:\n" + text})
				}
				if (a == nil) != (b == nil) {
					c.Report(Violation{Desc: "grammar accepted with one flag set and rejected with the other", Grammar: text, Gen: x.String() + " vs " + y.String()}, "")
				}
				continue
			}
			// complete removal of the state machinery iff no #{} block
			hasMachinery := strings.Contains(b.RT.Suffix(), "statePool") || strings.Contains(b.RT.Suffix(), "cloneState")
			if hasMachinery != hasStateBlock {
				c.Report(Violation{Desc: fmt.Sprintf("optimized static code has state machinery=%v but grammar has #{} block=%v", hasMachinery, hasStateBlock), Grammar: text, Gen: y.String()}, "")
			}
			mask := a.Flags.HasState() != b.Flags.HasState()
			for _, in := range inputs {
				for oi := range opts {
					for _, sc := range scripts {
						oa, ob := opts[oi], opts[oi]
						if !b.Flags.HasState() {
							oa.InitState, ob.InitState = false, false
						}
						ra := a.Run(in, &oa, sc)
						rb := b.Run(in, &ob, sc)
						c.Res.Evaluations++
						c.ConfSample(20011, 2, text, y, b, in, ob, sc, rb)
						if len(ra.Log) > 0 || len(ra.Errs) > 0 {
							c.Res.Nontrivial++
						}
						if ra.Diverged || rb.Diverged {
							if ra.Diverged != rb.Diverged {
								c.Report(Violation{Desc: "one parser returns, the other does not", Grammar: text, Gen: x.String() + " vs " + y.String(), Input: string(in), InputHex: hexOf(in)}, "")
							}
							continue
						}
						if len(in) == 2 && oi == 0 {
							c.Sample(map[string]any{"grammar": oneLine(text), "flags": x.String() + " vs " + y.String(), "input": string(in), "value": ra.Val, "errors": msgs(ra)})
						}
						if d := obsDiff(ra, rb, mask); len(d) > 0 {
							c.Report(Violation{Desc: d[0], Grammar: text, Gen: x.String() + " vs " + y.String(), Input: string(in), InputHex: hexOf(in), Opts: optsString(&oa) + " " + scriptString(sc), Diffs: d}, "",
								&ConfCase{Text: text, Gen: x, HasState: a.Flags.HasState(), HasMemo: true, Runs: []ConfRun{{Input: in, Opts: oa, Script: sc, Obs: ra}}},
								&ConfCase{Text: text, Gen: y, HasState: b.Flags.HasState(), HasMemo: false, Runs: []ConfRun{{Input: in, Opts: ob, Script: sc, Obs: rb}}})
						}
					}
				}
			}
		}
	}
	xs := []core.Gen{{}, {BasicLatin: true}, {OptGrammar: true}, {BasicLatin: true, OptGrammar: true}}
	def := []rtapi.RunOpts{{MaxExpr: 600, Filename: "f"}}
	// the same terminal text spelled differently (literals equal up to case, classes with the same
	// members): each occurrence is named in 'expected' lists by its OWN spelling, on both parsers
	{
		src := func(e *peg.Expr, sp string) *peg.Expr { e.Src = sp; return e }
		terms := []func() *peg.Expr{
			func() *peg.Expr { return peg.LitI("ab") }, func() *peg.Expr { return peg.LitI("AB") }, func() *peg.Expr { return peg.LitI("aB") }, func() *peg.Expr { return peg.Lit("ab") },
			func() *peg.Expr { return src(peg.Lit("ab"), "`ab`") }, func() *peg.Expr { return peg.Cls(false, true, "a", "b") }, func() *peg.Expr { return peg.Cls(false, true, "B", "A") },
			func() *peg.Expr { return src(peg.Cls(false, false, "a"), `[\x61]`) }, func() *peg.Expr { return peg.Cls(false, false, "a") },
		}
		saved := inputs
		inputs = [][]byte{{}, []byte("a"), []byte("A"), []byte("ab"), []byte("AB"), []byte("abx"), []byte("aba"), []byte("xab"), []byte("x")}
		for _, t1 := range terms {
			for _, t2 := range terms {
				if c.Expired("same-text family") {
					return
				}
				g := wrap(peg.Seq(peg.Choice(peg.Seq(t1(), peg.Lit("x")), peg.Seq(peg.Lit("x"), t2())), peg.Opt(t2()), peg.Not(peg.Any())))
				mustBuild = true
				diff(g, xs, def, nil)
				mustBuild = false
			}
		}
		inputs = saved
	}
	// class ranges in every relation to each other (disjoint, touching, overlapping, nested either way,
	// equal, in both orders, case-insensitive images that nest): what the emitted ranges accept
	{
		rs := []string{"a-z", "d-f", "a-f", "f-z", "g-k", "e-g", "d-d", "A-F", "@-Z"}
		saved := inputs
		inputs = nil
		for _, r := range "`acdefghkyz{@AFGZ[" {
			inputs = append(inputs, []byte(string(r)))
		}
		for _, x := range rs {
			for _, y := range rs {
				for _, ic := range []bool{false, true} {
					if c.Expired("class range family") {
						return
					}
					g := wrap(peg.Seq(peg.Cls(false, ic, x, y), peg.Opt(peg.Cls(true, ic, y, x)), peg.Not(peg.Any())))
					mustBuild = true
					diff(g, xs, def, nil)
					mustBuild = false
				}
			}
		}
		inputs = saved
	}
	// histories (common.go, historyFamily): a call aborted inside every kind of construct, then another
	// call - on the standard and on the optimized parser (each must answer like a first call; that
	// first calls agree between the two is what the other families decide)
	historyFamily(c, &idx, []core.Gen{{}, {Optimize: true}, {Optimize: true, BasicLatin: true}, {LeftRec: true}, {LeftRec: true, Optimize: true}})
	// cross family (cross.go): every construct x every flag set X, parser(X) vs parser(X + -optimize-parser),
	// with fault scripts (every block in turn returns an error / panics) and both Recover settings
	{
		inputs = crossInputsSmall
		ok := runCross(c, &idx, &crossSpec{maxSize: 3, each: func(g *peg.Grammar, lr bool) {
			var gx []core.Gen
			for m := 0; m < 4; m++ {
				x := core.Gen{BasicLatin: m&1 != 0, OptGrammar: m&2 != 0, LeftRec: lr}
				if x.OptGrammar && g.Rule("R") != nil {
					x.AltEntry = []string{"R"}
				}
				gx = append(gx, x)
			}
			scripts := crossFaultScripts(g)
			diffAll(g, gx, []rtapi.RunOpts{{MaxExpr: 600, Filename: "f", InitState: true}, {MaxExpr: 600, NoRecover: true}}, scripts)
		}})
		inputs = inputs0
		if !ok {
			return
		}
	}
	// two recovery operators in every arrangement (C14's family): standard vs optimized
	for gi, g := range twoRecoveryFamily(c.Thorough()) {
		if c.Expired("two-operator family") {
			return
		}
		if !c.Thorough() && gi%2 == 1 {
			continue
		}
		diff(g, xs[:1], def, nil)
	}
	// labels of inlined rules next to equally named labels of the enclosing rule (C09's family):
	// -optimize-grammar vs -optimize-grammar -optimize-parser
	inputs = peg.Inputs([]string{"a", "b", "c"}, 3)
	for _, g := range sameNameLabelFamily() {
		if c.Expired("same-name label family") {
			return
		}
		gg := g.Clone()
		peg.Renumber(gg, 1)
		peg.AssignArgs(gg)
		diff(gg, []core.Gen{{OptGrammar: true}, {}}, def, nil)
	}
	inputs = inputs0
	// (a)
	en := peg.NewEnumerator(peg.Alphabet{Leaves: baseLeaves(), Unary: allUnary, Seq: true, Choice: true, MaxArity: 3})
	for _, body := range en.UpTo(n) {
		if c.Expired("family a") {
			return
		}
		diff(wrap(body), xs, def, nil)
	}
	// (b)
	enB := peg.NewEnumerator(peg.Alphabet{Leaves: []*peg.Expr{peg.Lit("a"), peg.Cls(false, false, "a", "b"), peg.AndCode(0), peg.NotCode(0), peg.StateCode(0)}, Unary: allUnary, Seq: true, Choice: true, MaxArity: 3})
	for _, body := range enB.UpTo(3) {
		for _, lab := range labelings(body, 1) {
			if c.Expired("family b") {
				return
			}
			g := &peg.Grammar{Rules: []*peg.Rule{{Name: "S", Expr: peg.Action(0, lab)}}}
			peg.Renumber(g, 1)
			peg.AssignArgs(g)
			diff(g, xs[:2], def, predScripts(g, func(e *peg.Expr) rtapi.Block { return rtapi.Block{} }))
		}
	}
	// (c)
	enC := peg.NewEnumerator(peg.Alphabet{Leaves: []*peg.Expr{peg.Lit("a"), peg.Lit("b"), peg.StateCode(0), peg.AndCode(0)}, Unary: allUnary, Seq: true, Choice: true, MaxArity: 3})
	allOps := rtapi.OpShallow | rtapi.OpCloner | rtapi.OpGlobal
	for _, body := range enC.UpTo(4) {
		if c.Expired("family c") {
			return
		}
		g := &peg.Grammar{Rules: []*peg.Rule{{Name: "S", Expr: peg.Action(0, peg.Seq(body.Clone(), peg.AndCode(0)))}}}
		if !g.Has(peg.KState) {
			continue
		}
		peg.Renumber(g, 1)
		peg.AssignArgs(g)
		s := map[int]*rtapi.Block{}
		for _, b := range g.Blocks() {
			s[b.ID] = &rtapi.Block{Ops: allOps}
		}
		diff(g, xs[:2], []rtapi.RunOpts{{MaxExpr: 200, InitState: true}, {MaxExpr: 200}}, []map[int]*rtapi.Block{s})
	}
	// (d)
	enD := peg.NewEnumerator(peg.Alphabet{Leaves: []*peg.Expr{peg.Lit("a"), peg.AndCode(0), peg.StateCode(0), peg.Ref("A")}, Unary: []peg.Kind{peg.KOpt, peg.KStar, peg.KNot}, Seq: true, Choice: true})
	for _, body := range enD.UpTo(3) {
		if c.Expired("family d") {
			return
		}
		g := &peg.Grammar{Rules: []*peg.Rule{{Name: "S", Expr: peg.Action(0, body)}}}
		if len(peg.RefsOf(body)) > 0 {
			g.Rules = append(g.Rules, &peg.Rule{Name: "A", Display: "the A", Expr: peg.Action(0, peg.Cls(false, false, "a", "b"))})
		}
		peg.Renumber(g, 1)
		peg.AssignArgs(g)
		diff(g, xs[:1], []rtapi.RunOpts{{MaxExpr: 600}, {MaxExpr: 600, NoRecover: true}}, faultScripts(g.Blocks(), 2, true))
	}
	// (e)
	lr := []core.Gen{{LeftRec: true}, {LeftRec: true, BasicLatin: true}}
	for _, g := range lrGrammars() {
		if c.Expired("family e") {
			return
		}
		peg.Renumber(g, 1)
		peg.AssignArgs(g)
		s := map[int]*rtapi.Block{}
		for _, b := range g.Blocks() {
			s[b.ID] = &rtapi.Block{Ops: allOps}
		}
		diff(g, lr, []rtapi.RunOpts{{MaxExpr: 2000, InitState: true}}, []map[int]*rtapi.Block{s})
	}
}

// lrGrammars is a small family of left-recursive grammars (C08 has the
// systematic one).
func lrGrammars() []*peg.Grammar {
	var out []*peg.Grammar
	tails := []*peg.Expr{peg.Lit("a"), peg.Cls(false, false, "a", "b"), peg.Seq(peg.Lit("a"), peg.StateCode(0)), peg.Lit("ab")}
	bases := []*peg.Expr{peg.Lit("b"), peg.Lit("a"), peg.Seq(peg.StateCode(0), peg.Lit("b")), peg.Opt(peg.Lit("b")), peg.Lit("")}
	for _, t := range tails {
		for _, b := range bases {
			out = append(out,
				&peg.Grammar{Rules: []*peg.Rule{{Name: "S", Expr: peg.Choice(peg.Action(0, peg.Seq(peg.Label("l", peg.Ref("S")), peg.Label("r", t.Clone()))), b.Clone())}}},
				&peg.Grammar{Rules: []*peg.Rule{{Name: "S", Expr: peg.Action(0, peg.Label("v", peg.Ref("E")))}, {Name: "E", Expr: peg.Choice(peg.Seq(peg.Ref("E"), t.Clone()), b.Clone())}}},
				&peg.Grammar{Rules: []*peg.Rule{{Name: "S", Expr: peg.Choice(peg.Seq(peg.Ref("A"), t.Clone()), b.Clone())}, {Name: "A", Expr: peg.Choice(peg.Seq(peg.Ref("S"), peg.Lit("b")), peg.Lit("a"))}}},
			)
		}
	}
	return out
}
