package main

import (
	"fmt"

	"verif/engine/core"
	"verif/engine/peg"
	"verif/engine/rtapi"
)

func smoke() int {
	w, err := core.NewWorker()
	if err != nil {
		fmt.Println(err)
		return 2
	}
	defer w.Close()
	g := &peg.Grammar{Rules: []*peg.Rule{
		{Name: "S", Expr: peg.Action(1, peg.Seq(peg.Label("x", peg.Ref("A")), peg.Label("y", peg.Star(peg.Cls(false, false, "a", "b")))), "x", "y")},
		{Name: "A", Display: "the A", Expr: peg.Choice(peg.Action(2, peg.Seq(peg.Lit("a"), peg.Lit("b"))), peg.Lit("a"), peg.Seq(peg.AndCode(3), peg.StateCode(4), peg.Any()))},
	}}
	text := peg.Print(g, nil)
	fmt.Println(text)
	script := map[int]*rtapi.Block{3: {Pred: rtapi.PredTrue, Err: "e3"}, 4: {Ops: rtapi.OpShallow | rtapi.OpGlobal | rtapi.OpCloner}}
	for _, gen := range []core.Gen{{}, {Optimize: true}, {BasicLatin: true, Optimize: true}} {
		b, err := w.Build(text, gen)
		if err != nil {
			fmt.Println(err)
			return 2
		}
		fmt.Printf("gen=%s err=%q panic=%q problems=%v variant=%d nexprs=%d\n", gen, b.Err, b.Panic, b.Problems, b.RT.Index(), b.NExprs)
		for _, in := range []string{"ab", "aab", "b", "", "xb\n", "a\né"} {
			o := &rtapi.RunOpts{Filename: "f", InitState: true, Statistics: true, MaxExpr: 20000}
			obs := b.Run([]byte(in), o, script)
			ref := peg.Run(g, []byte(in), script, core.RefOptions(o, b.Flags))
			diffs, skipped := core.Compare(ref, obs, peg.NewPosTable([]byte(in)), "f", core.CmpOpts{MaxExpr: 20000})
			fmt.Printf("  in=%q val=%s errs=%d log=%d exprcnt=%d ticks=%d skipped=%v diffs=%v\n", in, obs.Val, len(obs.Errs), len(obs.Log), obs.ExprCnt, obs.Ticks, skipped, diffs)
			for _, e := range obs.Errs {
				fmt.Printf("     err: %s\n", e.Msg)
			}
		}
	}
	return 0
}
