package main

import (
	"fmt"

	"verif/engine/core"
	"verif/engine/peg"
	"verif/engine/rtapi"
)

func init() {
	register(&Check{
		ID: "C05", Level: "exploration", QuickSecs: 150, ThoroughSecs: 1500,
		Rule:        "skeletons over {'a','b',#{},&{},!{}} x {?,*,+,&,!} x seq/choice (arity<=3) up to N nodes (quick 5, thorough 6) under a rule-level action, plus one label+action decoration per node for N<=3 and a rule call variant; plus 18 left-recursive grammars (-support-left-recursion, with and without -optimize-parser; state blocks in the base alternative, in the operand and before the recursion; inputs up to length 4); every #{} appends its id to a string value (shallow copy), to a Cloner list mutated IN PLACE and to globalStore; action and predicate blocks attempt the same mutations (two scripts: all blocks return normally / all blocks also return an error); every block snapshots state and globalStore. Inputs over {a,b} up to L=3, InitState on/off, 2 generation flag sets. Every snapshot and the final store are compared with the reference (immutable store threaded through the evaluation; failing expression = store unchanged; &/! always restore; block-local changes dropped; globalStore append-only). The pool shim additionally checks the pool discipline (no double Put, no non-empty map from Get). Non-trivial = a state change was followed by a failure of an enclosing expression (reference backtracked after a #{} ran). Plus a rule-cycle family (three rules calling each other in a ring, ONE #{} block at every position of the ring, a lookahead predicate - & and !, over a rule alone and over a rule followed by a terminal - over every rule placed in every rule, every rule order; 972 grammars), left-recursive rules evaluated a second time at the same offset (finding D33), a stacked-recovery family (a throw under two or three recovery operators for the same label, every recovery expression failing / failing after a state change / matching / matching after a state change / matching empty, followed by a probe, by nested savepoints or inside a loop; 450 grammars), and the cross family (cross.go: every body with a #{} block, 16 flag sets).",
		Assumptions: []string{"E1 loader", "position/text seen by non-action blocks are C02's concern and are masked here"},
		Run:         runC05,
	})
}

func stateKey(e rtapi.Event) string {
	if e.Kind == rtapi.KAction {
		return e.String()
	}
	return fmt.Sprintf("%c%d l=%v s=%s g=%s", e.Kind, e.ID, e.Labels, e.State, e.Global)
}

func runC05(c *ShardCtx) {
	n := 5
	if c.Thorough() {
		n = 6
	}
	leaves := []*peg.Expr{peg.Lit("a"), peg.Lit("b"), peg.StateCode(0), peg.AndCode(0), peg.NotCode(0)}
	en := peg.NewEnumerator(peg.Alphabet{Leaves: leaves, Unary: allUnary, Seq: true, Choice: true, MaxArity: 3})
	inputs := peg.Inputs([]string{"a", "b"}, 3)
	opts := []rtapi.RunOpts{{MaxExpr: 200, InitState: true}, {MaxExpr: 200}}
	allOps := rtapi.OpShallow | rtapi.OpCloner | rtapi.OpGlobal
	// two scripts: every block mutates all three stores and returns normally; the same
	// with every block also returning an error (the error path must restore alike)
	mkScript := func(g *peg.Grammar, withErr bool) map[int]*rtapi.Block {
		s := map[int]*rtapi.Block{}
		for _, b := range g.Blocks() {
			s[b.ID] = &rtapi.Block{Ops: allOps, Pred: rtapi.PredTrue}
			if b.K == peg.KNotCode {
				s[b.ID].Pred = rtapi.PredFalse // the predicate holds: parsing goes on after its block mutated the stores
			}
			if withErr {
				s[b.ID].Err = "e" + itoa(b.ID)
			}
		}
		return s
	}
	nontriv := func(ref *peg.Result, obs *rtapi.Obs) bool {
		st := false
		for _, e := range ref.Log {
			if e.Kind == rtapi.KState {
				st = true
			}
		}
		return st && (ref.Backtracked || !ref.Matched)
	}
	run := func(g *peg.Grammar) {
		peg.Renumber(g, 1)
		peg.AssignArgs(g)
		fam := &family{gens: gens2, inputs: inputs, opts: opts, scripts: []map[int]*rtapi.Block{mkScript(g, false), mkScript(g, true)}, nontrivial: nontriv,
			cmp: core.CmpOpts{EventKey: stateKey, SkipNoMatch: true}, confEvery: 97, confQuota: 1}
		runGrammar(c, g, fam)
	}
	idx := 0
	// left-recursive rules (-support-left-recursion, with and without -optimize-parser): the
	// discarded last growth attempt - usually a successful parse of the base alternative - must
	// leave the store as it was; state blocks in the base, in the operand and before the recursion
	{
		lit := peg.Lit
		st := func() *peg.Expr { return peg.StateCode(0) }
		var lrs []*peg.Grammar
		for _, base := range []func() *peg.Expr{
			func() *peg.Expr { return peg.Seq(lit("a"), st()) }, func() *peg.Expr { return peg.Seq(st(), lit("a")) }, func() *peg.Expr { return peg.Ref("T") },
		} {
			for _, op := range []func() *peg.Expr{
				func() *peg.Expr { return peg.Seq(lit("b"), st()) }, func() *peg.Expr { return peg.Seq(st(), lit("b"), peg.Ref("T")) }, func() *peg.Expr { return lit("b") },
			} {
				lrs = append(lrs,
					&peg.Grammar{Rules: []*peg.Rule{{Name: "S", Expr: peg.Action(0, peg.Seq(peg.Label("v", peg.Ref("E")), peg.AndCode(0), peg.Opt(lit("a"))))},
						{Name: "E", Expr: peg.Choice(peg.Seq(peg.Ref("E"), op()), base())}, {Name: "T", Expr: peg.Seq(lit("a"), st())}}},
					&peg.Grammar{Rules: []*peg.Rule{{Name: "S", Expr: peg.Action(0, peg.Seq(peg.Star(peg.Seq(peg.Ref("E"), peg.Opt(lit("b")))), peg.AndCode(0)))},
						{Name: "E", Expr: peg.Choice(peg.Action(0, peg.Seq(peg.Ref("E"), op())), base())}, {Name: "T", Expr: peg.Seq(lit("a"), st())}}},
					// the recursive rule reached a SECOND time at the same offset: after a rolled-back
					// alternative, after a lookahead
					&peg.Grammar{Rules: []*peg.Rule{{Name: "S", Expr: peg.Action(0, peg.Seq(peg.Choice(peg.Seq(peg.Ref("E"), lit("b"), lit("b")), peg.Label("v", peg.Ref("E"))), peg.AndCode(0)))},
						{Name: "E", Expr: peg.Choice(peg.Seq(peg.Ref("E"), op()), base())}, {Name: "T", Expr: peg.Seq(lit("a"), st())}}},
					&peg.Grammar{Rules: []*peg.Rule{{Name: "S", Expr: peg.Action(0, peg.Seq(peg.And(peg.Ref("E")), peg.Label("v", peg.Ref("E")), peg.AndCode(0)))},
						{Name: "E", Expr: peg.Choice(peg.Seq(peg.Ref("E"), op()), base())}, {Name: "T", Expr: peg.Seq(lit("a"), st())}}},
				)
			}
		}
		for _, g := range lrs {
			idx++
			if !c.Mine(idx) {
				continue
			}
			peg.Renumber(g, 1)
			peg.AssignArgs(g)
			fam := &family{gens: []core.Gen{{LeftRec: true}, {LeftRec: true, Optimize: true}}, inputs: peg.Inputs([]string{"a", "b"}, 4), opts: opts,
				scripts: []map[int]*rtapi.Block{mkScript(g, false), mkScript(g, true)}, nontrivial: nontriv, cmp: core.CmpOpts{EventKey: stateKey, SkipNoMatch: true}, confEvery: 5, confQuota: 1}
			runGrammar(c, g, fam)
		}
	}
	// stacked recovery operators: a throw under two or three recovery operators for the SAME label
	// (the runtime tries them innermost first, "like the alternatives of a choice"); every recovery
	// expression fails, fails after a state change, matches, matches after a state change or
	// matches empty; a state change in front of the throw; afterwards a probe, a failing
	// continuation with a second alternative (nested savepoints after the throw), or a loop
	{
		lit := peg.Lit
		st := func() *peg.Expr { return peg.StateCode(0) }
		recs := []func() *peg.Expr{
			func() *peg.Expr { return lit("b") }, func() *peg.Expr { return peg.Seq(st(), lit("b")) },
			func() *peg.Expr { return lit("a") }, func() *peg.Expr { return peg.Seq(st(), lit("a")) }, func() *peg.Expr { return lit("") },
		}
		guard := func() *peg.Expr { return peg.Seq(peg.Opt(lit("a")), st(), peg.Throw("l")) }
		tops := []func(x *peg.Expr) *peg.Expr{
			func(x *peg.Expr) *peg.Expr { return peg.Seq(st(), x, peg.AndCode(0), peg.Star(peg.Any())) },
			func(x *peg.Expr) *peg.Expr {
				return peg.Seq(peg.Choice(peg.Seq(st(), x, lit("q")), peg.Seq(st(), peg.Opt(peg.Seq(st(), lit("a"), lit("q"))), peg.Opt(lit("a")))), peg.AndCode(0), peg.Star(peg.Any()))
			},
			func(x *peg.Expr) *peg.Expr {
				return peg.Seq(peg.Star(peg.Choice(peg.Seq(x, lit("q")), peg.Seq(st(), lit("a")))), peg.AndCode(0), peg.Star(peg.Any()))
			},
		}
		for depth := 2; depth <= 3; depth++ {
			total := 1
			for i := 0; i < depth; i++ {
				total *= len(recs)
			}
			for code := 0; code < total; code++ {
				for ti, top := range tops {
					idx++
					if !c.Mine(idx) {
						continue
					}
					if c.Expired("stacked recovery family") {
						return
					}
					x := guard()
					k := code
					for i := 0; i < depth; i++ {
						x = peg.Recover(x, recs[k%len(recs)](), "l")
						k /= len(recs)
					}
					_ = ti
					run(&peg.Grammar{Rules: []*peg.Rule{{Name: "S", Expr: peg.Action(0, top(x))}}})
				}
			}
		}
	}
	// rule cycles: three rules calling each other in a ring (behind a terminal), ONE #{} block at
	// every position of the ring (before / after the recursive call, in the leaf alternative), a
	// lookahead predicate (& and !, over a rule alone and over a rule followed by a terminal) over
	// every rule of the ring placed in every rule, every rule order: what a succeeding or failing
	// lookahead did to the store is undone whatever the callee reaches through the cycle
	{
		lit := peg.Lit
		names := []string{"X", "Y", "Z"}
		heads := []string{"a", "b", "c"}
		leafs := []string{"x", "y", "z"}
		var ringInputs [][]byte
		for _, in := range peg.Inputs([]string{"a", "b", "c", "x", "y"}, 4) {
			if len(in) > 0 && in[0] == 'a' { // (X starts with "a"; everything else fails at once)
				ringInputs = append(ringInputs, in)
			}
		}
		for stRule := 0; stRule < 3; stRule++ {
			for stPos := 0; stPos < 3; stPos++ {
				for predKind := 0; predKind < 4; predKind++ {
					for predOver := 0; predOver < 3; predOver++ {
						for predIn := 0; predIn < 3; predIn++ {
							idx++
							if !c.Mine(idx) {
								continue
							}
							if c.Expired("rule cycle family") {
								return
							}
							for rot := 0; rot < 3; rot++ {
								var rules []*peg.Rule
								for k := 0; k < 3; k++ {
									r := (k + rot) % 3
									next := names[(r+1)%3]
									var items []*peg.Expr
									if stRule == r && stPos == 0 {
										items = append(items, peg.StateCode(0))
									}
									items = append(items, lit(heads[r]))
									if predIn == r {
										var op *peg.Expr
										switch predKind {
										case 0:
											op = peg.And(peg.Ref(names[predOver]))
										case 1:
											op = peg.Not(peg.Ref(names[predOver]))
										case 2:
											op = peg.And(peg.Seq(peg.Ref(names[predOver]), lit("y")))
										case 3:
											op = peg.Not(peg.Seq(peg.Ref(names[predOver]), lit("y")))
										}
										items = append(items, op)
									}
									items = append(items, peg.Ref(next))
									if stRule == r && stPos == 1 {
										items = append(items, peg.StateCode(0))
									}
									leaf := lit(leafs[r])
									if stRule == r && stPos == 2 {
										leaf = peg.Seq(lit(leafs[r]), peg.StateCode(0))
									}
									rules = append(rules, &peg.Rule{Name: names[r], Expr: peg.Choice(peg.Seq(items...), leaf)})
								}
								g := &peg.Grammar{Rules: append([]*peg.Rule{{Name: "S", Expr: peg.Action(0, peg.Seq(peg.Label("v", peg.Ref("X")), peg.AndCode(0), peg.Star(peg.Any())))}}, rules...)}
								peg.Renumber(g, 1)
								peg.AssignArgs(g)
								fam := &family{gens: gens2, inputs: ringInputs, opts: opts[:1], scripts: []map[int]*rtapi.Block{mkScript(g, false)}, nontrivial: nontriv,
									cmp: core.CmpOpts{EventKey: stateKey, SkipNoMatch: true}, confEvery: 211, confQuota: 1}
								runGrammar(c, g, fam)
							}
						}
					}
				}
			}
		}
	}
	// cross family (cross.go): every body with a #{} block next to every other construct, under
	// every flag set; every block tries to change all three stores
	if !runCross(c, &idx, &crossSpec{maxSize: 3, gens: gens16, inputs: crossInputsSmall, opts: opts,
		keep: func(body *peg.Expr) bool {
			st := false
			body.Walk(func(e *peg.Expr) { st = st || e.K == peg.KState })
			return st
		},
		scripts: func(g *peg.Grammar) []map[int]*rtapi.Block {
			out := []map[int]*rtapi.Block{mkScript(g, false), mkScript(g, true)}
			return out
		}, nontrivial: nontriv, cmp: core.CmpOpts{EventKey: stateKey, SkipNoMatch: true}}) {
		return
	}
	// deeper shapes: the same operators over COMPOSITE leaves - a sequence that changes the store and
	// can fail afterwards counts as one node - so that a repetition / option / predicate over such
	// a sequence as (only) content of a choice alternative, of a label, of an action ... is reached
	{
		lit := peg.Lit
		leaves2 := []*peg.Expr{peg.Seq(peg.StateCode(0), lit("a"), lit("b")), peg.Seq(lit("a"), peg.StateCode(0), lit("b")), lit("a"), lit("b")}
		en2 := peg.NewEnumerator(peg.Alphabet{Leaves: leaves2, Unary: allUnary, Seq: true, Choice: true, MaxArity: 2})
		n2 := 4
		if c.Thorough() {
			n2 = 5
		}
		for size := 2; size <= n2; size++ {
			for _, body := range en2.Size(size) {
				if !(&peg.Grammar{Rules: []*peg.Rule{{Name: "S", Expr: body}}}).Has(peg.KState) {
					continue
				}
				idx++
				if !c.Mine(idx) {
					continue
				}
				if c.Expired("composite leaves, size " + itoa(size)) {
					return
				}
				run(&peg.Grammar{Rules: []*peg.Rule{{Name: "S", Expr: peg.Action(0, peg.Seq(body.Clone(), peg.AndCode(0), peg.Star(peg.Any())))}}})
				if size <= 3 {
					run(&peg.Grammar{Rules: []*peg.Rule{{Name: "S", Expr: peg.Action(0, peg.Seq(peg.Label("v", peg.Action(0, body.Clone())), peg.AndCode(0), peg.Star(peg.Any())))}}})
				}
			}
		}
	}
	for size := 1; size <= n; size++ {
		for _, body := range en.Size(size) {
			if !(&peg.Grammar{Rules: []*peg.Rule{{Name: "S", Expr: body}}}).Has(peg.KState) {
				continue
			}
			idx++
			if !c.Mine(idx) {
				continue
			}
			if c.Expired("cut at body size " + itoa(size)) {
				return
			}
			run(&peg.Grammar{Rules: []*peg.Rule{{Name: "S", Expr: peg.Action(0, peg.Seq(body.Clone(), peg.AndCode(0)))}}})
			if size <= 3 {
				// the same body reached through a rule call, and decorated
				run(&peg.Grammar{Rules: []*peg.Rule{{Name: "S", Expr: peg.Action(0, peg.Seq(peg.Choice(peg.Seq(peg.Ref("A"), peg.Lit("b")), peg.Ref("A")), peg.AndCode(0)))}, {Name: "A", Expr: body.Clone()}}})
				for pos := range peg.Nodes(body) {
					dec := peg.ReplaceNth(body, pos, func(x *peg.Expr) *peg.Expr { return peg.Action(0, peg.Label("x", x)) })
					run(&peg.Grammar{Rules: []*peg.Rule{{Name: "S", Expr: peg.Action(0, peg.Seq(dec, peg.AndCode(0)))}}})
				}
			}
		}
	}
}
