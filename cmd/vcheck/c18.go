package main

import (
	"encoding/json"
	"fmt"
	"os"
	"os/exec"
	"path/filepath"
	"strings"
	"sync"

	"verif/engine/core"
	"verif/engine/peg"
	"verif/engine/rtapi"
	"verif/engine/sched"
	"verif/engine/vsync"
)

func init() {
	register(&Check{
		ID: "C18", Level: "model_checking", QuickSecs: 170, ThoroughSecs: 1500,
		Rule:        "Controlled scheduler over real goroutines calling Parse on ONE loaded grammar of one runtime variant package. Scenarios (each forces a collision on something shared): s1 state grammar backtracking over #{} with different inputs; s2 the same with a Cloner value in InitState on one side; s3 Memoize(true) next to default options; s4 left-recursive grammar with state (leader loop clones per iteration); s5 Statistics/Debug on one side; s6 different Entrypoints; s7 a block that panics under Recover(true) while cloned states are held; s8 three concurrent calls; s9 Statistics on both sides with a recovery-side choice reached by throws from two rules; s10/s11 calls through ParseReader on a grammar without actions (values are the matched input bytes), standard and -optimize-parser, a failing call among them. Mode A: scheduling points at every state-pool Get/Put and every code block call, environment choice at Get (any pooled map, or a fresh one) - explored WITHOUT a preemption bound using state-key pruning (key = step counter of every thread + number of pooled maps); the three-call scenario has deviation bound 3 in the quick tier. Mode B: additionally a scheduling point at every tick (entry of every parser method and every loop iteration) - plain DFS with iterative preemption bound 0,1,(2). Every execution starts cold (all package-level variables of the runtime re-initialised). Oracle on every execution: each call's observation (value, errors, block log with state snapshots) equals the observation of the same call run alone; pool discipline monitor silent (no map Put twice, none non-empty from Get); deep dump of the grammar value g identical before and after; the value each finished call returned is canonicalised AGAIN after all calls have ended and must not have changed (no memory shared with another call). A free-running pass of the same scenarios with the real sync.Pool under the Go race detector (sampling, supporting evidence only) must report no race. Scenario s12: a throw recovered by an inline recovery expression that binds a label. Sequential histories: every ordered pair (and every triple over a reduced alphabet) of ~80 calls - inputs matching / failing / invalid, Memoize, Statistics, Debug, Recover(false), ParseReader, option lists of a wrapper (opposites first, doubled), a panicking action, EVERY MaxExpressions budget 1..40 - on four grammar / flag variants; the last call must return what it returns as first call of a process.",
		Assumptions: []string{"goroutines are serialised at hooked operations; memory-model effects between hooks are only covered by the free-running -race pass", "pruning key soundness: pooled maps are empty and unreferenced while the discipline monitor is silent"},
		Run:         runC18,
		Post:        postC18,
	})
}

type call struct {
	In   string
	Opts rtapi.RunOpts
}

type scenario struct {
	Name   string
	G      *peg.Grammar
	Gen    core.Gen
	Script map[int]*rtapi.Block
	Calls  []call
}

func scenarios() []scenario {
	lit := peg.Lit
	allOps := rtapi.OpShallow | rtapi.OpCloner | rtapi.OpGlobal
	stateG := func() *peg.Grammar {
		return &peg.Grammar{Rules: []*peg.Rule{
			{Name: "S", Expr: peg.Action(0, peg.Seq(peg.Label("v", peg.Star(peg.Choice(peg.Seq(peg.StateCode(0), lit("a"), lit("b")), peg.Seq(peg.StateCode(0), lit("a")), peg.Seq(peg.Not(peg.Seq(peg.StateCode(0), lit("c"))), lit("b"))))), peg.AndCode(0)))},
			{Name: "T", Expr: peg.Action(0, peg.Seq(peg.StateCode(0), peg.Opt(lit("a")), peg.Ref("S")))},
		}}
	}
	script := func(g *peg.Grammar, panicID int) map[int]*rtapi.Block {
		s := map[int]*rtapi.Block{}
		for _, b := range g.Blocks() {
			s[b.ID] = &rtapi.Block{Ops: allOps}
		}
		if panicID > 0 {
			s[panicID].Panic = 1
			s[panicID].Err = "boom"
		}
		return s
	}
	prep := func(g *peg.Grammar) *peg.Grammar {
		peg.Renumber(g, 1)
		peg.AssignArgs(g)
		return g
	}
	var out []scenario
	g1 := prep(stateG())
	out = append(out, scenario{"s1-state-backtracking", g1, core.Gen{}, script(g1, 0), []call{{"abab", rtapi.RunOpts{InitState: true}}, {"aab", rtapi.RunOpts{}}}})
	out = append(out, scenario{"s2-cloner-one-side", g1, core.Gen{Optimize: true}, script(g1, 0), []call{{"aba", rtapi.RunOpts{InitState: true}}, {"bab", rtapi.RunOpts{}}}})
	out = append(out, scenario{"s3-memoize-next-to-default", g1, core.Gen{}, script(g1, 0), []call{{"abab", rtapi.RunOpts{Memoize: true}}, {"abab", rtapi.RunOpts{}}}})
	g4 := prep(&peg.Grammar{Rules: []*peg.Rule{{Name: "E", Expr: peg.Choice(peg.Action(0, peg.Seq(peg.Label("l", peg.Ref("E")), lit("a"), peg.StateCode(0), peg.Label("r", peg.Ref("T")))), peg.Ref("T"))}, {Name: "T", Expr: peg.Seq(peg.StateCode(0), lit("b"))}}})
	out = append(out, scenario{"s4-left-recursion-with-state", g4, core.Gen{LeftRec: true}, script(g4, 0), []call{{"babab", rtapi.RunOpts{InitState: true}}, {"bab", rtapi.RunOpts{Memoize: true}}}})
	g5 := prep(&peg.Grammar{Rules: []*peg.Rule{{Name: "S", Expr: peg.Action(0, peg.Label("v", peg.Plus(peg.Choice(peg.Seq(lit("a"), lit("b")), lit("a"), peg.Cls(false, false, "b", "c")))))}}})
	out = append(out, scenario{"s5-statistics-debug-one-side", g5, core.Gen{}, script(g5, 0), []call{{"abac", rtapi.RunOpts{Statistics: true, Debug: true}}, {"aab", rtapi.RunOpts{}}}})
	out = append(out, scenario{"s6-entrypoints", g1, core.Gen{}, script(g1, 0), []call{{"aab", rtapi.RunOpts{Entrypoint: strp("T"), InitState: true}}, {"ab", rtapi.RunOpts{}}}})
	g7 := prep(stateG())
	out = append(out, scenario{"s7-panic-while-states-held", g7, core.Gen{}, script(g7, 3), []call{{"aab", rtapi.RunOpts{InitState: true}}, {"ab", rtapi.RunOpts{InitState: true}}}})
	// s9: Statistics on both sides, a recovery expression with an inline choice reached by
	// throws from two different rules (the statistics key of that choice names the throwing rule)
	g9 := prep(&peg.Grammar{Rules: []*peg.Rule{
		{Name: "S", Expr: peg.Recover(peg.Plus(peg.Choice(peg.Ref("A"), peg.Ref("B"))), peg.Choice(peg.Lit("a"), peg.Lit("b"), peg.Seq(peg.StateCode(0), peg.Any())), "l")},
		{Name: "A", Expr: peg.Seq(peg.Lit("x"), peg.Choice(peg.Lit("!"), peg.Throw("l")))},
		{Name: "B", Expr: peg.Seq(peg.Lit("y"), peg.Choice(peg.Lit("?"), peg.Throw("l")))}}})
	out = append(out, scenario{"s9-statistics-recovery-choice", g9, core.Gen{}, script(g9, 0), []call{{"xay!", rtapi.RunOpts{Statistics: true}}, {"ybx!", rtapi.RunOpts{Statistics: true, InitState: true}}}})
	// s10: both calls through ParseReader, a grammar WITHOUT actions (the returned values are the
	// matched input bytes themselves), second call with a failing and an optimized-parser variant
	g10 := prep(&peg.Grammar{Rules: []*peg.Rule{{Name: "S", Expr: peg.Seq(peg.Plus(peg.Choice(peg.Lit("ab"), peg.Cls(false, false, "a-c"))), peg.Not(peg.Any()))}}})
	out = append(out, scenario{"s10-parsereader-raw-values", g10, core.Gen{}, script(g10, 0), []call{{"abcab", rtapi.RunOpts{UseReader: true}}, {"cba", rtapi.RunOpts{UseReader: true}}}})
	out = append(out, scenario{"s11-parsereader-optimized-failing", g10, core.Gen{Optimize: true}, script(g10, 0), []call{{"abcab", rtapi.RunOpts{UseReader: true}}, {"cbxa", rtapi.RunOpts{UseReader: true}}, {"ab", rtapi.RunOpts{}}}})
	// s12: a throw taken in a label-free choice alternative, recovered by an INLINE recovery expression
	// that binds a label its action reads; both calls go through the recovery path with different text
	g12 := prep(&peg.Grammar{Rules: []*peg.Rule{
		{Name: "S", Expr: peg.Action(0, peg.Seq(peg.Label("v", peg.Seq(peg.Ref("A"), peg.Star(peg.Seq(lit(","), peg.Ref("A"))))), peg.Not(peg.Any())))},
		{Name: "A", Expr: peg.Recover(peg.Choice(lit("a"), peg.Throw("l")), peg.Action(0, peg.Seq(peg.Label("j", peg.Plus(peg.Cls(false, false, "b-d"))), peg.AndCode(0))), "l")}}})
	out = append(out, scenario{"s12-recovery-binds-label", g12, core.Gen{}, script(g12, 0), []call{{"a,bcd", rtapi.RunOpts{}}, {"ddb,a", rtapi.RunOpts{}}}})
	// s13: a class with a Unicode class tested against multi-byte runes that are letters in one call
	// and symbols in the other (what a matcher node remembers must not be shared between calls)
	g13 := prep(&peg.Grammar{Rules: []*peg.Rule{{Name: "S", Expr: peg.Action(0, peg.Seq(peg.Label("v", peg.Plus(peg.Choice(peg.Action(0, peg.Plus(peg.Cls(false, false, `\pL`))), peg.Cls(true, false, "a")))), peg.Not(peg.Any())))}}})
	out = append(out, scenario{"s13-unicode-class-multibyte", g13, core.Gen{}, script(g13, 0), []call{{"é€é€", rtapi.RunOpts{}}, {"€é€é", rtapi.RunOpts{}}}})
	out = append(out, scenario{"s14-unicode-class-multibyte-optimized", g13, core.Gen{Optimize: true, BasicLatin: true}, script(g13, 0), []call{{"€λ€λ", rtapi.RunOpts{}}, {"λ€€λ", rtapi.RunOpts{}}}})
	out = append(out, scenario{"s8-three-calls", g1, core.Gen{}, script(g1, 0), []call{{"a", rtapi.RunOpts{InitState: true}}, {"b", rtapi.RunOpts{}}, {"", rtapi.RunOpts{InitState: true}}}})
	return out
}

func obsString(o *rtapi.Obs) string {
	c := *o
	c.Ticks, c.Diverged = 0, false
	c.EvalRepeat, c.EvalCalls = "", 0
	b, _ := json.Marshal(&c)
	return string(b)
}

// runScenario explores one scenario in one mode. mode "A" or "B".
func runScenario(c *ShardCtx, sc scenario, mode string, bound int) {
	text := peg.Print(sc.G, nil)
	b := buildOrCount(c, text, sc.Gen)
	if b == nil {
		panic(&core.HarnessError{Msg: "scenario grammar rejected: " + sc.Name})
	}
	// the grammar value as loaded, before any call has run: no call may leave a trace in it
	gBefore := b.RT.Dump()
	// solo observations
	solo := make([]string, len(sc.Calls))
	for i, cl := range sc.Calls {
		o := cl.Opts
		o.MaxExpr = 4000
		vsync.Reset()
		b.RT.ResetGlobals() // cold start: the call is the first one of the process
		solo[i] = obsString(b.Run([]byte(cl.In), &o, sc.Script))
		if d := b.RT.Dump(); d != gBefore {
			c.Report(Violation{Desc: fmt.Sprintf("scenario %s: the shared grammar value g was modified by Parse(%q, %s) run alone (state kept in the grammar is shared by all calls)", sc.Name, cl.In, optsString(&cl.Opts)), Grammar: text, Gen: sc.Gen.String(),
				Extra: map[string]any{"scenario": sc.Name}}, "")
			return
		}
	}
	outcomes := map[string]bool{}
	var firstBad *Violation
	execOnce := func(prefix []int) (*sched.Execution, []string, error) {
		vsync.Reset()
		// every execution starts cold: package-level variables of the runtime are
		// re-initialised, so schedules in which the FIRST calls of a process overlap
		// are explored (lazily built shared tables, pools, caches)
		b.RT.ResetGlobals()
		obs := make([]*rtapi.Obs, len(sc.Calls))
		var s *sched.Sched
		bodies := make([]func(int), len(sc.Calls))
		for i := range sc.Calls {
			i := i
			bodies[i] = func(tid int) {
				o := sc.Calls[i].Opts
				o.MaxExpr = 4000
				o.TickCap = 400000
				ctx := &rtapi.Ctx{Script: sc.Script, Shared: true, Sched: s, TID: tid, TickYield: mode == "B"}
				obs[i] = b.RT.Run([]byte(sc.Calls[i].In), &o, ctx)
			}
		}
		key := func(steps []int) string { return fmt.Sprint(steps, vsync.Pooled()) }
		if mode == "B" {
			key = nil
		}
		x, err := sched.Run(prefix, key, func(sc *sched.Sched) {
			s = sc
			vsync.Hook = func(op string) { sc.YieldCurrent("pool-" + op) }
			vsync.Choose = func(n int) int {
				if n == 0 {
					return 0
				}
				return sc.Choice("pool-get", n+1)
			}
		}, bodies)
		vsync.Hook, vsync.Choose = nil, nil
		var diffs []string
		tuple := ""
		for i := range sc.Calls {
			if obs[i] == nil {
				diffs = append(diffs, fmt.Sprintf("call %d did not return an observation", i))
				continue
			}
			got := obsString(obs[i])
			tuple += got + "\n"
			if got != solo[i] {
				diffs = append(diffs, fmt.Sprintf("call %d (input %q, %s) differs from the same call run alone:\n   concurrent: %s\n   alone:      %s", i, sc.Calls[i].In, optsString(&sc.Calls[i].Opts), got, solo[i]))
			}
		}
		outcomes[tuple] = true
		// the values handed out by finished calls are still what they were when the call returned
		for i := range sc.Calls {
			if obs[i] != nil && obs[i].Recanon() != obs[i].Val {
				diffs = append(diffs, fmt.Sprintf("the value returned by call %d (input %q) changed after the call had returned: %s, was %s (it shares memory with another call)", i, sc.Calls[i].In, obs[i].Recanon(), obs[i].Val))
			}
		}
		for _, v := range vsync.Violations {
			diffs = append(diffs, "state pool discipline: "+v)
		}
		vsync.Violations = nil
		if d := b.RT.Dump(); d != gBefore {
			diffs = append(diffs, "the shared grammar value g was modified by a parse")
		}
		return x, diffs, err
	}
	// determinism of the harness: the default schedule twice
	x1, d1, err1 := execOnce(nil)
	x2, d2, err2 := execOnce(nil)
	if err1 != nil || err2 != nil || len(x1.Points) != len(x2.Points) || fmt.Sprint(d1) != fmt.Sprint(d2) {
		panic(&core.HarnessError{Msg: fmt.Sprintf("scenario %s: default schedule is not reproducible (%v %v, %d vs %d points)", sc.Name, err1, err2, len(x1.Points), len(x2.Points))})
	}
	ex := &sched.Explorer{Bound: bound, Prune: mode == "A"}
	polluted := false
	ex.Stop = func() bool { return polluted || c.Expired("scenario "+sc.Name+" mode "+mode) }
	ex.RunOne = func(prefix []int) (*sched.Execution, bool) {
		x, diffs, err := execOnce(prefix)
		c.Res.Evaluations++
		if err != nil {
			panic(&core.HarnessError{Msg: fmt.Sprintf("scenario %s schedule %v: %v", sc.Name, prefix, err)})
		}
		if len(prefix) > 0 {
			c.Res.Nontrivial++
		}
		if len(diffs) > 0 {
			// re-run the schedule: the same schedule must fail every time
			_, again, _ := execOnce(prefix)
			if fmt.Sprint(again) != fmt.Sprint(diffs) {
				// the one legitimate reason for a schedule to fail differently the second time: the
				// execution CHANGED the shared grammar value (that is a violation by itself, and
				// every later execution of the scenario starts from another g)
				gmod := false
				for _, d := range append(append([]string{}, diffs...), again...) {
					gmod = gmod || strings.Contains(d, "shared grammar value g was modified")
				}
				if !gmod {
					panic(&core.HarnessError{Msg: fmt.Sprintf("scenario %s schedule %v fails irreproducibly", sc.Name, prefix)})
				}
				diffs = append([]string{"the shared grammar value g was modified by a parse (later executions of this schedule give other results)"}, diffs...)
				polluted = true
			}
			if firstBad == nil {
				firstBad = &Violation{Desc: fmt.Sprintf("scenario %s mode %s: %s", sc.Name, mode, diffs[0]), Grammar: text, Gen: sc.Gen.String(), Opts: fmt.Sprintf("schedule (choice list) %v", prefix), Diffs: diffs,
					Extra: map[string]any{"scenario": sc.Name, "mode": mode, "schedule": prefix}}
				c.Report(*firstBad, "")
			} else {
				c.Res.NViolations++
			}
			return x, false
		}
		return x, true
	}
	ex.Explore()
	c.Res.States += int64(ex.States)
	c.Res.Transitions += int64(ex.Transitions)
	// every explored schedule is an execution of the implementation itself
	c.Res.Conformance += int64(ex.Executions)
	c.Res.Counters["schedules_"+sc.Name+"_"+mode] = int64(ex.Executions)
	c.Res.Counters["distinct_outcomes_"+sc.Name+"_"+mode] = int64(len(outcomes))
	c.Sample(map[string]any{"scenario": sc.Name, "mode": mode, "bound": bound, "schedules": ex.Executions, "points_default_schedule": len(x1.Points), "distinct_outcome_tuples": len(outcomes), "grammar": oneLine(text)})
}

// historySequences: the degenerate schedules - calls one after the other in one process, no
// overlap - over a much larger alphabet of calls than the interleaving scenarios can afford:
// EVERY ordered pair (and every triple over a reduced alphabet) of calls that differ in input
// (matching, failing at several places, empty), in options (Memoize, Statistics, Debug, Recover(false),
// ParseReader, every MaxExpressions budget from 1 to 40 - i.e. a call aborted at every possible
// point, also inside lookahead predicates, loops and actions) and in what their blocks do (a
// panicking action). The last call of every sequence must return exactly what it returns when
// it is the first call of the process.
func historySequences(c *ShardCtx, variant int) {
	lit := peg.Lit
	allOps := rtapi.OpShallow | rtapi.OpCloner | rtapi.OpGlobal
	var g *peg.Grammar
	gen := core.Gen{Optimize: variant&1 != 0}
	if variant&2 == 0 {
		// keywords, lookahead in both polarities, a loop, state, an action
		g = &peg.Grammar{Rules: []*peg.Rule{
			{Name: "S", Expr: peg.Action(0, peg.Seq(peg.Label("v", peg.Plus(peg.Choice(peg.Seq(peg.Not(peg.Ref("K")), peg.Ref("W")), peg.Ref("K"), peg.Seq(peg.And(lit("x")), peg.StateCode(0), lit("x"))))), peg.Not(peg.Any())))},
			{Name: "K", Display: "keyword", Expr: peg.Seq(lit("ab"), peg.Not(peg.Cls(false, false, "a-c")))},
			{Name: "W", Expr: peg.Action(0, peg.Plus(peg.Cls(false, false, "a-c")))},
		}}
	} else {
		gen.LeftRec = true
		g = &peg.Grammar{Rules: []*peg.Rule{
			{Name: "S", Expr: peg.Action(0, peg.Seq(peg.Label("v", peg.Ref("E")), peg.Not(peg.Any())))},
			{Name: "E", Expr: peg.Choice(peg.Action(0, peg.Seq(peg.Label("l", peg.Ref("E")), lit("x"), peg.Not(lit("x")), peg.Label("r", peg.Ref("T")))), peg.Ref("T"))},
			{Name: "T", Expr: peg.Seq(peg.StateCode(0), peg.Plus(peg.Cls(false, false, "a-c")))},
		}}
	}
	peg.Renumber(g, 1)
	peg.AssignArgs(g)
	text := peg.Print(g, nil)
	b := buildOrCount(c, text, gen)
	if b == nil {
		panic(&core.HarnessError{Msg: "history grammar rejected"})
	}
	c.Res.Grammars++
	plain := map[int]*rtapi.Block{}
	boom := map[int]*rtapi.Block{}
	for _, blk := range g.Blocks() {
		plain[blk.ID] = &rtapi.Block{Ops: allOps}
		boom[blk.ID] = &rtapi.Block{Ops: allOps}
		if blk.K == peg.KAction && blk.ID != 1 {
			boom[blk.ID].Panic, boom[blk.ID].Err = 1, "boom"
		}
	}
	type hcall struct {
		in     string
		o      rtapi.RunOpts
		script map[int]*rtapi.Block
	}
	var calls, small []hcall
	inputs := []string{"abc", "ab cx", "cabxab", "", "q", "abq", "cxa"}
	if gen.LeftRec {
		inputs = []string{"axb", "axbxc", "a", "", "q", "axx", "axbq"}
	}
	for k, in := range inputs {
		calls = append(calls, hcall{in, rtapi.RunOpts{MaxExpr: 4000}, plain}, hcall{in, rtapi.RunOpts{MaxExpr: 4000, InitState: true, UseReader: true}, plain})
		if k < 3 {
			small = append(small, hcall{in, rtapi.RunOpts{MaxExpr: 4000}, plain})
		}
		if b.Flags.HasMemo() {
			calls = append(calls, hcall{in, rtapi.RunOpts{MaxExpr: 4000, Memoize: true, Statistics: true}, plain}, hcall{in, rtapi.RunOpts{MaxExpr: 4000, Debug: true}, plain})
		}
	}
	calls = append(calls, hcall{inputs[0], rtapi.RunOpts{MaxExpr: 4000}, boom}, hcall{inputs[2], rtapi.RunOpts{MaxExpr: 4000, NoRecover: true}, boom}, hcall{"ab\xffc", rtapi.RunOpts{MaxExpr: 4000}, plain}, hcall{"ab\xffc", rtapi.RunOpts{MaxExpr: 4000, AllowInvalid: true}, plain})
	// option lists a wrapper builds: its own defaults in front of the caller's options (every
	// option preceded by its opposite), every option twice
	for _, in := range []string{inputs[0], inputs[4], "ab\xffc"} {
		calls = append(calls, hcall{in, rtapi.RunOpts{MaxExpr: 4000, Shadowed: true}, plain}, hcall{in, rtapi.RunOpts{MaxExpr: 4000, AllowInvalid: true, Doubled: true}, plain},
			hcall{in, rtapi.RunOpts{MaxExpr: 4000, AllowInvalid: true, NoRecover: true, Shadowed: true}, plain})
		if b.Flags.HasMemo() {
			calls = append(calls, hcall{in, rtapi.RunOpts{MaxExpr: 4000, Memoize: true, Doubled: true}, plain}, hcall{in, rtapi.RunOpts{MaxExpr: 4000, Memoize: true, Shadowed: true}, plain})
		}
	}
	small = append(small, hcall{inputs[4], rtapi.RunOpts{MaxExpr: 4000}, plain}, hcall{inputs[5], rtapi.RunOpts{MaxExpr: 4000}, plain}, hcall{inputs[0], rtapi.RunOpts{MaxExpr: 4000}, boom})
	for n := uint64(1); n <= 40; n++ {
		calls = append(calls, hcall{inputs[2], rtapi.RunOpts{MaxExpr: n}, plain})
		if n%3 == 0 {
			calls = append(calls, hcall{inputs[2], rtapi.RunOpts{MaxExpr: n, NoRecover: true}, plain})
			small = append(small, hcall{inputs[2], rtapi.RunOpts{MaxExpr: n}, plain})
		}
	}
	alone := func(cl hcall) string {
		o := cl.o
		return obsString(b.Run([]byte(cl.in), &o, cl.script))
	}
	solo := make([]string, len(calls))
	for i, cl := range calls {
		solo[i] = alone(cl)
	}
	outcomes := map[string]bool{}
	seq := func(cs []hcall, want string) {
		var last *rtapi.Obs
		var desc []string
		for k, cl := range cs {
			o := cl.o
			if k == 0 {
				last = b.Run([]byte(cl.in), &o, cl.script)
			} else if optsString(&cl.o) == optsString(&cs[k-1].o) {
				// the caller keeps its option VALUES (opts := []Option{...}) and passes them again
				last = b.RunWarmReuse([]byte(cl.in), &o, cl.script)
				c.Res.Counters["history_calls_with_reused_option_values"]++
			} else {
				last = b.RunWarm([]byte(cl.in), &o, cl.script)
			}
			desc = append(desc, fmt.Sprintf("Parse(%q, %s%s)", cl.in, optsString(&cl.o), map[bool]string{true: ", an action panics", false: ""}[fmt.Sprint(cl.script) == fmt.Sprint(boom)]))
		}
		c.Res.Evaluations++
		c.Res.Nontrivial++
		c.Res.States += int64(len(cs))
		c.Res.Transitions += int64(len(cs))
		got := obsString(last)
		outcomes[got] = true
		if got != want {
			c.Report(Violation{Desc: fmt.Sprintf("the last call of the sequence %s returns something else than the same call as the first call of a process:\n   in sequence: %s\n   alone:       %s", strings.Join(desc, " ; "), got, want),
				Grammar: text, Gen: gen.String(), Input: cs[len(cs)-1].in, Opts: strings.Join(desc, " ; "), Extra: map[string]any{"scenario": "history-sequences", "variant": variant}}, "")
		}
	}
	for i := range calls {
		if c.Expired("history sequences") {
			return
		}
		for j := range calls {
			seq([]hcall{calls[i], calls[j]}, solo[j])
		}
	}
	ssolo := make([]string, len(small))
	for i, cl := range small {
		ssolo[i] = alone(cl)
	}
	for i := range small {
		if c.Expired("history sequences") {
			return
		}
		for j := range small {
			for k := range small {
				seq([]hcall{small[i], small[j], small[k]}, ssolo[k])
			}
		}
	}
	c.Res.Counters[fmt.Sprintf("history_sequences_variant%d_calls", variant)] = int64(len(calls))
	c.Sample(map[string]any{"scenario": "history-sequences", "variant": variant, "grammar": oneLine(text), "flags": gen.String(), "calls": len(calls), "pairs": len(calls) * len(calls), "triples": len(small) * len(small) * len(small), "distinct_last_observations": len(outcomes)})
}

func runC18(c *ShardCtx) {
	scs := scenarios()
	type job struct {
		sc    scenario
		mode  string
		bound int
	}
	var jobs []job
	for _, sc := range scs {
		bound := -1
		if len(sc.Calls) > 2 && !c.Thorough() {
			bound = 3 // three calls: deviation bound 3 in the quick tier, unbounded in thorough
		}
		jobs = append(jobs, job{sc, "A", bound})
	}
	for _, sc := range scs {
		jobs = append(jobs, job{sc, "B", 1})
	}
	if c.Thorough() {
		for _, sc := range scs {
			if len(sc.Calls) == 2 {
				jobs = append(jobs, job{sc, "B", 2})
			}
		}
	}
	for i, j := range jobs {
		if i%c.N != c.Shard {
			continue
		}
		runScenario(c, j.sc, j.mode, j.bound)
		c.Res.Grammars++
	}
	// sequential histories (four grammar / flag variants), on the shards that come after the jobs
	for v := 0; v < 4; v++ {
		if (len(jobs)+v)%c.N == c.Shard {
			historySequences(c, v)
		}
	}
}

// raceMain: vcheck race-pass  (only meaningful in the -race build)
func raceMain() int {
	w, err := core.NewWorker()
	if err != nil {
		fmt.Fprintln(os.Stderr, err)
		return 2
	}
	defer w.Close()
	vsync.UseReal = true
	vsync.Monitor = false
	iters := 300
	for _, sc := range scenarios() {
		text := peg.Print(sc.G, nil)
		b, err := w.Build(text, sc.Gen)
		if err != nil || !b.OK() {
			fmt.Fprintln(os.Stderr, "race pass: build failed", err)
			return 2
		}
		for it := 0; it < iters; it++ {
			var wg sync.WaitGroup
			for i := range sc.Calls {
				wg.Add(1)
				go func(i int) {
					defer wg.Done()
					o := sc.Calls[i].Opts
					o.MaxExpr = 4000
					o.TickCap = 400000
					ctx := &rtapi.Ctx{Script: sc.Script, Shared: true}
					b.RT.Run([]byte(sc.Calls[i].In), &o, ctx)
				}(i)
			}
			wg.Wait()
		}
	}
	fmt.Println("race pass done")
	return 0
}

func postC18(tier string, m *ShardResult) {
	bin := filepath.Join(core.Root(), "build", "bin", "vcheck-race")
	if _, err := os.Stat(bin); err != nil {
		m.Counters["race_pass_skipped_no_binary"] = 1
		return
	}
	cmd := exec.Command(bin, "race-pass")
	cmd.Env = append(os.Environ(), "VERIF_ROOT="+core.Root(), "GORACE=halt_on_error=1 exitcode=66")
	out, err := cmd.CombinedOutput()
	if err != nil {
		if strings.Contains(string(out), "DATA RACE") {
			m.NViolations++
			m.Violations = append(m.Violations, Violation{Property: "C18", Desc: "the Go race detector reports a data race between concurrent Parse calls", Diffs: []string{tail(string(out), 3000)}})
			return
		}
		panic(&core.HarnessError{Msg: "race pass failed: " + err.Error() + "\n" + tail(string(out), 1000)})
	}
	m.Counters["race_pass_iterations_per_scenario"] = 300
}
