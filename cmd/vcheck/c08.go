package main

import (
	"verif/engine/core"
	"verif/engine/peg"
	"verif/engine/rtapi"
)

func init() {
	register(&Check{
		ID: "C08", Level: "exploration", QuickSecs: 170, ThoroughSecs: 1500,
		Rule:        "(a) direct rules A <- A t1 [/ A t2] / b1 [/ b2] with tails and bases from {'a','b',\"ab\",[ab],B,'a' B,'b' #{}} and operand rule B from {'b',[ab],'a' 'b'?}, plain and with labelled recursion l:A r:t {action} (value shows the nesting); variants with an error-returning action and a #{} on a base alternative (they re-run in the final non-extending attempt); nullable base alternatives ('b'?, \"\", 'b'*: an empty seed has to be accepted and grown); (b) the E/T/F tower (2 and 3 levels) over one-letter operators; (c) single-cycle indirect pairs X <- Y t / b ; Y <- X u / c entered through either rule, with both name orders (leader first / second). Inputs: all strings over {a,b} up to L (quick 5, thorough 6), over {a,b,c} up to 4 for the tower; configurations {Memoize off/on} x {-, -optimize-parser}, all with -support-left-recursion. Oracle: the reference evaluates the first-entered rule of a cycle by seed growing, which for the stated rule form is (b1/...)(a1/...)* with left-nested values; compared: success, consumed prefix, exact value, error list, state snapshots, termination inside the budget. Non-trivial = the recursion grew at least twice (value nesting depth >= 2) or a final non-extending attempt ran a block. Plus a long input family (chains of up to 24 operands, every operator pattern of period <= 3, with and without a dangling operator / closing token, three towers, both variants).",
		Assumptions: []string{"E1 loader", "reference = seed growing at the first rule of the cycle entered at a position"},
		Run:         runC08,
	})
}

func runC08(c *ShardCtx) {
	l := 5
	if c.Thorough() {
		l = 6
	}
	inputsAB := peg.Inputs([]string{"a", "b"}, l)
	inputsABC := peg.Inputs([]string{"a", "b", "c"}, 4)
	gens := []core.Gen{{LeftRec: true}, {LeftRec: true, Optimize: true}}
	opts := []rtapi.RunOpts{{MaxExpr: 6000, InitState: true}, {MaxExpr: 6000, InitState: true, Memoize: true}}
	allOps := rtapi.OpShallow | rtapi.OpCloner | rtapi.OpGlobal
	nontriv := func(ref *peg.Result, obs *rtapi.Obs) bool { return ref.Matched && ref.End >= 3 }
	idx := 0
	var leader string
	// pickErr: which blocks return an error in the erroring variant (default: every other action)
	var pickErr func(i int, b *peg.Expr) bool
	run := func(g *peg.Grammar, inputs [][]byte, errBlock bool, eps []*string) {
		idx++
		if !c.Mine(idx) {
			return
		}
		// wrapper rules: the probe after the recursive rule snapshots the final store
		first := g.Rules[0].Name
		origEps := eps
		wr := []*peg.Rule{{Name: "S", Expr: peg.Seq(peg.Label("v", peg.Ref(first)), peg.AndCode(0))}}
		var eps2 []*string
		for _, ep := range eps {
			if ep == nil {
				eps2 = append(eps2, nil)
			} else {
				wr = append(wr, &peg.Rule{Name: "S" + *ep, Expr: peg.Seq(peg.Label("v", peg.Ref(*ep)), peg.AndCode(0))})
				eps2 = append(eps2, strp("S"+*ep))
			}
		}
		eps = eps2
		g.Rules = append(wr, g.Rules...)
		peg.Renumber(g, 1)
		peg.AssignArgs(g)
		s := map[int]*rtapi.Block{}
		for i, b := range g.Blocks() {
			s[b.ID] = &rtapi.Block{Ops: allOps}
			if errBlock && b.K == peg.KAction && ((pickErr == nil && i%2 == 0) || (pickErr != nil && pickErr(i, b))) {
				s[b.ID].Err = "e" + itoa(b.ID)
			}
		}
		var os []rtapi.RunOpts
		for _, ep := range eps {
			for _, o := range opts {
				o.Entrypoint = ep
				os = append(os, o)
			}
		}
		fam := &family{gens: gens, inputs: inputs, opts: os, scripts: []map[int]*rtapi.Block{s}, nontrivial: nontriv,
			cmp: core.CmpOpts{SkipLog: true, SkipNoMatch: true, SkipInnerSeq: true}, confEvery: 211, confQuota: 1,
			// the leader's result is memoised, so block invocation counts legitimately
			// differ from the reference; what must agree is the final store (snapshot
			// taken by the wrapper's probe), the value and the errors
			extra: finalStoreOracle}
		if len(inputs) > 0 && len(inputs[len(inputs)-1]) > 20 {
			fam.refOpts = func(o *peg.Options) { o.MaxEval = 5000000 }
		}
		if leader != "" {
			// indirect cycle: the cycle's leader (alphabetically first rule lying on
			// all cycles - computed here, not taken from the tool) grows the seed,
			// the other rule is evaluated plainly; see DESIGN.md 4.C08
			ld := leader
			fam.refOpts = func(o *peg.Options) { o.LeaderHeads = map[string]bool{ld: true} }
		}
		runGrammarMemoAware(c, g, fam)
		// the same grammar WITHOUT the wrapper rules: parsing starts at the left-recursive
		// rule itself (first rule, or selected with Entrypoint); value and errors only
		if len(wr) > 0 {
			g2 := &peg.Grammar{Rules: g.Rules[len(wr):]}
			var os2 []rtapi.RunOpts
			for _, ep := range origEps {
				for _, o := range opts {
					o.Entrypoint = ep
					os2 = append(os2, o)
				}
			}
			fam2 := *fam
			fam2.opts = os2
			fam2.extra = nil
			fam2.confEvery = 0
			c.Res.Grammars--
			runGrammarMemoAware(c, g2, &fam2)
		}
	}
	def := []*string{nil}
	ts := []func() *peg.Expr{
		func() *peg.Expr { return peg.Lit("a") }, func() *peg.Expr { return peg.Lit("b") }, func() *peg.Expr { return peg.Lit("ab") },
		func() *peg.Expr { return peg.Cls(false, false, "a", "b") }, func() *peg.Expr { return peg.Ref("B") },
		func() *peg.Expr { return peg.Seq(peg.Lit("a"), peg.Ref("B")) }, func() *peg.Expr { return peg.Seq(peg.Lit("b"), peg.StateCode(0)) },
	}
	// bases may be nullable (the tails may not): an empty seed must be accepted and grown
	nullableBases := []func() *peg.Expr{func() *peg.Expr { return peg.Opt(peg.Lit("b")) }, func() *peg.Expr { return peg.Lit("") }, func() *peg.Expr { return peg.Star(peg.Lit("b")) }}
	bRules := []func() *peg.Expr{func() *peg.Expr { return peg.Lit("b") }, func() *peg.Expr { return peg.Cls(false, false, "a", "b") }, func() *peg.Expr { return peg.Seq(peg.Lit("a"), peg.Opt(peg.Lit("b"))) }}
	mk := func(rules ...*peg.Rule) *peg.Grammar {
		g := &peg.Grammar{Rules: rules}
		refs := map[string]bool{}
		for _, r := range rules {
			for _, x := range peg.RefsOf(r.Expr) {
				refs[x] = true
			}
		}
		return g
	}
	// (r) the same error made twice: an operand whose action returns an error is evaluated inside a
	// growth attempt that is discarded (the attempt fails on a trailing terminal, or is the final
	// non-extending one) and then AGAIN, for real, at the same position - by the caller of the
	// recursive rule, by a later alternative, or by the next attempt. The error of the discarded
	// attempt must go, the error of the real evaluation must be in the list (once)
	{
		lit := peg.Lit
		N := func() *peg.Rule { return &peg.Rule{Name: "N", Expr: peg.Action(0, peg.Cls(false, false, "a", "b"))} }
		es := []func() []*peg.Rule{
			func() []*peg.Rule {
				return []*peg.Rule{{Name: "E", Expr: peg.Choice(peg.Seq(peg.Ref("E"), lit("b"), peg.Ref("N"), lit("c")), peg.Ref("N"))}, N()}
			},
			func() []*peg.Rule {
				return []*peg.Rule{{Name: "E", Expr: peg.Choice(peg.Seq(peg.Ref("E"), lit("b"), peg.Ref("N"), lit("c")), peg.Seq(peg.Ref("E"), lit("b"), peg.Ref("N")), peg.Seq(peg.Ref("E"), lit("a"), peg.Ref("N"), lit("c")), peg.Ref("N"))}, N()}
			},
			func() []*peg.Rule {
				return []*peg.Rule{{Name: "E", Expr: peg.Choice(peg.Action(0, peg.Seq(peg.Label("l", peg.Ref("E")), lit("b"), peg.Label("r", peg.Ref("N")), lit("c"))), peg.Ref("N"))}, N()}
			},
			// (an operand that records two errors per evaluation: other lengths of the error list when
			// the leader takes its snapshot)
			func() []*peg.Rule {
				return []*peg.Rule{{Name: "E", Expr: peg.Choice(peg.Seq(peg.Ref("E"), lit("b"), peg.Ref("N"), lit("c")), peg.Seq(peg.Ref("E"), lit("b"), peg.Ref("N")), peg.Seq(peg.Ref("E"), lit("a"), peg.Ref("N"), lit("c")), peg.Ref("N"))},
					{Name: "N", Expr: peg.Action(0, peg.Action(0, peg.Cls(false, false, "a", "b")))}}
			},
			func() []*peg.Rule {
				return []*peg.Rule{{Name: "E", Expr: peg.Choice(peg.Seq(peg.Ref("F"), lit("c")), peg.Ref("N"))}, {Name: "F", Expr: peg.Seq(peg.Ref("E"), lit("b"), peg.Ref("N"))}, N()}
			},
		}
		tops := []func() *peg.Expr{
			func() *peg.Expr { return peg.Seq(peg.Ref("E"), lit("b"), peg.Ref("N")) },
			func() *peg.Expr { return peg.Seq(peg.Ref("E"), peg.Star(peg.Seq(lit("b"), peg.Ref("N")))) },
			func() *peg.Expr { return peg.Choice(peg.Seq(peg.Ref("E"), lit("c"), lit("c")), peg.Seq(peg.Ref("E"), lit("b"), peg.Ref("N"), peg.Opt(lit("c")))) },
			func() *peg.Expr { return peg.Ref("E") },
		}
		pickErr = func(i int, b *peg.Expr) bool { return true }
		inputsABC := peg.Inputs([]string{"a", "b", "c"}, 5) // (three operands and two operators)
		for _, e := range es {
			for _, t := range tops {
				if c.Expired("repeated-error family") {
					return
				}
				g := &peg.Grammar{Rules: append([]*peg.Rule{{Name: "T", Expr: t()}}, e()...)}
				run(g, inputsABC, true, def)
				run(&peg.Grammar{Rules: append([]*peg.Rule{{Name: "T", Expr: t()}}, e()...)}, inputsABC, false, def)
			}
		}
		pickErr = nil
	}
	// (a) direct
	for t1 := range ts {
		for t2 := -1; t2 < len(ts); t2++ {
			for b1 := range ts {
				for b2 := -1; b2 < len(ts); b2 += 3 {
					for variant := 0; variant < 3; variant++ {
						if c.Expired("direct family") {
							return
						}
						rec := func(t *peg.Expr) *peg.Expr {
							if variant == 0 {
								return peg.Seq(peg.Ref("A"), t)
							}
							return peg.Action(0, peg.Seq(peg.Label("l", peg.Ref("A")), peg.Label("r", t)))
						}
						base := func(b *peg.Expr) *peg.Expr {
							if variant == 2 {
								return peg.Action(0, peg.Seq(b, peg.StateCode(0)))
							}
							return b
						}
						alts := []*peg.Expr{rec(ts[t1]())}
						if t2 >= 0 {
							alts = append(alts, rec(ts[t2]()))
						}
						alts = append(alts, base(ts[b1]()))
						if b2 >= 0 {
							alts = append(alts, base(ts[b2]()))
						}
						bk := (t1 + b1) % len(bRules)
						g := mk(&peg.Rule{Name: "A", Expr: peg.Choice(alts...)}, &peg.Rule{Name: "B", Expr: bRules[bk]()})
						run(g, inputsAB, variant == 2, def)
					}
				}
			}
		}
	}
	// (a') nullable bases
	for t1 := range ts {
		for _, nb := range nullableBases {
			for variant := 0; variant < 2; variant++ {
				if c.Expired("nullable base family") {
					return
				}
				var rec *peg.Expr
				if variant == 0 {
					rec = peg.Seq(peg.Ref("A"), ts[t1]())
				} else {
					rec = peg.Action(0, peg.Seq(peg.Label("l", peg.Ref("A")), peg.Label("r", ts[t1]())))
				}
				g := mk(&peg.Rule{Name: "A", Expr: peg.Choice(rec, nb())}, &peg.Rule{Name: "B", Expr: bRules[t1%len(bRules)]()})
				run(g, inputsAB, false, def)
			}
		}
	}
	// (b) towers
	lit := peg.Lit
	for _, atom := range []*peg.Expr{lit("c"), peg.Choice(lit("c"), peg.Seq(lit("b"), peg.Ref("E"), lit("b")))} {
		for variant := 0; variant < 2; variant++ {
			bin := func(l, op, r string) *peg.Expr {
				if variant == 0 {
					return peg.Seq(peg.Ref(l), lit(op), peg.Ref(r))
				}
				return peg.Action(0, peg.Seq(peg.Label("l", peg.Ref(l)), lit(op), peg.Label("r", peg.Ref(r))))
			}
			run(mk(&peg.Rule{Name: "E", Expr: peg.Choice(bin("E", "a", "T"), peg.Ref("T"))}, &peg.Rule{Name: "T", Expr: atom.Clone()}), inputsABC, false, def)
			run(mk(&peg.Rule{Name: "E", Expr: peg.Choice(bin("E", "a", "T"), peg.Ref("T"))}, &peg.Rule{Name: "T", Expr: peg.Choice(bin("T", "b", "F"), peg.Ref("F"))}, &peg.Rule{Name: "F", Expr: atom.Clone()}), inputsABC, variant == 1, def)
		}
	}
	// (d) long inputs: chains of up to 24 operands (every operator pattern of period <= 3, with and
	// without a dangling operator or a closing token) through towers whose upper level looks at the
	// seed again AFTER a nested leader has been started further on: what the growth loops keep per
	// offset must not depend on how many offsets have been visited before
	{
		var long [][]byte
		pats := []string{"a", "b", "ab", "ba", "aab", "abb"}
		for k := 1; k <= 24; k++ {
			for _, p := range pats {
				s := "c"
				for i := 1; i < k; i++ {
					s += string(p[(i-1)%len(p)]) + "c"
				}
				long = append(long, []byte(s), []byte(s+"d"), []byte(s+"a"))
			}
		}
		savedOpts := opts
		opts = []rtapi.RunOpts{{MaxExpr: 400000, TickCap: 20000000}, {MaxExpr: 400000, TickCap: 20000000, Memoize: true}}
		for variant := 0; variant < 2; variant++ {
			bin := func(l, op, r string, more ...*peg.Expr) *peg.Expr {
				if variant == 0 {
					return peg.Seq(append([]*peg.Expr{peg.Ref(l), lit(op), peg.Ref(r)}, more...)...)
				}
				return peg.Action(0, peg.Seq(append([]*peg.Expr{peg.Label("l", peg.Ref(l)), lit(op), peg.Label("r", peg.Ref(r))}, more...)...))
			}
			for _, gr := range []*peg.Grammar{
				mk(&peg.Rule{Name: "E", Expr: peg.Choice(bin("E", "a", "T", lit("d")), bin("E", "a", "T"), peg.Ref("T"))}, &peg.Rule{Name: "T", Expr: peg.Choice(bin("T", "b", "F"), peg.Ref("F"))}, &peg.Rule{Name: "F", Expr: lit("c")}),
				mk(&peg.Rule{Name: "E", Expr: peg.Choice(bin("E", "a", "T"), peg.Ref("T"))}, &peg.Rule{Name: "T", Expr: peg.Choice(bin("T", "b", "F"), peg.Ref("F"))}, &peg.Rule{Name: "F", Expr: lit("c")}),
				mk(&peg.Rule{Name: "A", Expr: peg.Choice(peg.Seq(peg.Ref("A"), lit("a"), lit("c")), peg.Seq(peg.Ref("A"), lit("b"), lit("c"), peg.And(lit("a"))), peg.Seq(peg.Ref("A"), lit("b"), lit("c")), lit("c"))}),
			} {
				if c.Expired("long input family") {
					return
				}
				run(gr, long, false, def)
			}
		}
		opts = savedOpts
	}
	// (c) indirect pairs
	for _, names := range [][2]string{{"A", "B"}, {"B", "A"}} {
		for _, t := range []string{"a", "b"} {
			for _, u := range []string{"a", "b"} {
				for _, b := range []string{"a", "b", "ab"} {
					for _, cc := range []string{"a", "b", "ab"} {
						for variant := 0; variant < 2; variant++ {
							if c.Expired("indirect family") {
								return
							}
							x, y := names[0], names[1]
							var xe, ye *peg.Expr
							if variant == 0 {
								xe = peg.Choice(peg.Seq(peg.Ref(y), lit(t)), lit(b))
								ye = peg.Choice(peg.Seq(peg.Ref(x), lit(u)), lit(cc))
							} else {
								xe = peg.Choice(peg.Action(0, peg.Seq(peg.Label("l", peg.Ref(y)), peg.Label("r", lit(t)))), lit(b))
								ye = peg.Choice(peg.Action(0, peg.Seq(peg.Label("l", peg.Ref(x)), peg.Label("r", lit(u)))), lit(cc))
							}
							g := mk(&peg.Rule{Name: x, Expr: xe}, &peg.Rule{Name: y, Expr: ye})
							leader = "A"
							run(g, inputsAB, false, []*string{nil, strp(y)})
							leader = ""
						}
					}
				}
			}
		}
	}
}

func finalStoreOracle(g *peg.Grammar, b *core.Built, in []byte, o *rtapi.RunOpts, ref *peg.Result, obs *rtapi.Obs) []string {
	last := func(log []rtapi.Event) string {
		for i := len(log) - 1; i >= 0; i-- {
			if log[i].Kind == rtapi.KAnd {
				return "s=" + log[i].State // globalStore reflects invocation counts, which memoisation of the leader legitimately changes
			}
		}
		return "(probe not reached)"
	}
	if w, g := last(ref.Log), last(obs.Log); w != g {
		return []string{"final store seen by the probe after the recursive rule: want " + w + " got " + g}
	}
	return nil
}

// runGrammarMemoAware runs the family, comparing block logs only for runs
// without Memoize (a memo hit legitimately skips invocations).
func runGrammarMemoAware(c *ShardCtx, g *peg.Grammar, f *family) {
	var plain, memo []rtapi.RunOpts
	for _, o := range f.opts {
		if o.Memoize {
			memo = append(memo, o)
		} else {
			plain = append(plain, o)
		}
	}
	f1 := *f
	f1.opts = plain
	runGrammar(c, g, &f1)
	if len(memo) > 0 {
		f2 := *f
		f2.opts = memo
		f2.cmp.SkipLog = true
		f2.confEvery = 0
		c.Res.Grammars--
		runGrammar(c, g, &f2)
	}
}
