package main

import (
	"fmt"

	"verif/engine/core"
	"verif/engine/peg"
	"verif/engine/rtapi"
)

func init() {
	register(&Check{
		ID: "C02", Level: "exploration", QuickSecs: 150, ThoroughSecs: 1500,
		Rule:        "skeletons over {'a',[ab],.,\"é\",&{},!{},#{}} x {?,*,+,&,!} x seq/choice up to N nodes (quick 4, thorough 5) wrapped in a rule-level action; left-recursive rules generated with -support-left-recursion (12 grammars: text, pos and the seed as label value in every growth iteration); every placement of <=2 labels on sub-expressions (distinct names, and the same name twice when the two bindings are in different scopes); a scope family (x bound in the rule sequence and again inside each scope-opening construct - & ! ? * + choice alternative, label, recovery - in a sub-sequence that continues after the inner binding; 243 grammars, inputs over {a,b} up to 4); every block receives the labels of its scope; every true/false script of the code predicates, each also with the predicates returning an error next to their boolean; inputs over {a,b,\\n,é} up to L=3; the complete ordered log of block invocations (id, kind, line:col:offset, text, label values), also on abandoned alternatives, and the parse result are compared with the reference interpreter; with Memoize (bodies up to 3 nodes in the quick tier) each observed invocation must be one the reference also makes; plus a family generated with -optimize-grammar in which a labelled leaf rule is inlined next to equally named labels. Non-trivial = at least two block invocations of which one on a later-abandoned path or after a backtrack. Plus a recovery scope family (x bound in the guarded expression of a recovery operator, a throw from 7 kinds of nested scope, recovery expressions whose predicate and action receive x and bind y, with and without an outer x; 42 grammars) a thrown-value family (a labelled throw whose value comes from 5 kinds of recovery expression while the operator stands where its own value is not looked at; 15 grammars x 4 flag sets) and a line/column family (12 terminals spanning or following line ends - newline first / middle / last / only rune of a literal, CR LF, non-ASCII next to a newline, classes, any - in ordered pairs, two shapes, all 8 flag sets without left recursion, inputs over {a,newline,b} up to 4) and the cross family (cross.go, bodies <= 3 nodes x 16 flag sets, complete block log).",
		Assumptions: []string{"E1 loader", "which labels a block receives is C04's concern; here the values bound to them are checked"},
		Run:         runC02,
	})
}

// labelings returns copies of body with every subset of <= max labels placed
// on distinct non-root nodes (labels x, y in pre-order).
// sameNameMaxNodes bounds the bodies that also get same-name label pairs.
var sameNameMaxNodes = 3

func labelings(body *peg.Expr, max int) []*peg.Expr {
	nodes := peg.Nodes(body)
	var cand []int
	for i, n := range nodes {
		if n.K == peg.KLabel || n.K == peg.KThrow {
			continue
		}
		cand = append(cand, i)
	}
	out := []*peg.Expr{body.Clone()}
	names := []string{"x", "y", "z"}
	var rec func(start int, chosen []int)
	rec = func(start int, chosen []int) {
		if len(chosen) > 0 {
			e := body
			// apply from the last position to the first so indices stay valid
			for k := len(chosen) - 1; k >= 0; k-- {
				name := names[k]
				e = peg.ReplaceNth(e, chosen[k], func(x *peg.Expr) *peg.Expr { return peg.Label(name, x) })
			}
			out = append(out, e)
			// the same name bound in two nested scopes (an inner binding must not be visible outside)
			if len(chosen) == 2 && len(nodes) <= sameNameMaxNodes {
				e2 := body
				for k := len(chosen) - 1; k >= 0; k-- {
					e2 = peg.ReplaceNth(e2, chosen[k], func(x *peg.Expr) *peg.Expr { return peg.Label("x", x) })
				}
				if !peg.SameScopeDup(e2) {
					out = append(out, e2)
				}
			}
		}
		if len(chosen) == max {
			return
		}
		for i := start; i < len(cand); i++ {
			rec(i+1, append(append([]int(nil), chosen...), cand[i]))
		}
	}
	rec(0, nil)
	return out
}

// predScripts enumerates every true/false assignment of the code predicates.
func predScripts(g *peg.Grammar, base func(e *peg.Expr) rtapi.Block) []map[int]*rtapi.Block {
	var preds []*peg.Expr
	script := map[int]*rtapi.Block{}
	for _, b := range g.Blocks() {
		blk := base(b)
		script[b.ID] = &blk
		if b.K == peg.KAndCode || b.K == peg.KNotCode {
			preds = append(preds, b)
		}
	}
	if len(preds) > 4 {
		preds = preds[:4]
	}
	var out []map[int]*rtapi.Block
	for m := 0; m < 1<<len(preds); m++ {
		s := map[int]*rtapi.Block{}
		for k, v := range script {
			c := *v
			s[k] = &c
		}
		for i, p := range preds {
			if m&(1<<i) != 0 {
				s[p.ID].Pred = rtapi.PredFalse
			} else {
				s[p.ID].Pred = rtapi.PredTrue
			}
		}
		out = append(out, s)
	}
	// the boolean alone decides: the same assignments with every predicate also returning an error
	if len(preds) > 0 {
		n := len(out)
		for i := 0; i < n; i++ {
			s := map[int]*rtapi.Block{}
			for k, v := range out[i] {
				c := *v
				s[k] = &c
			}
			for _, p := range preds {
				s[p.ID].Err = "e" + itoa(p.ID)
			}
			out = append(out, s)
		}
	}
	return out
}

func memoLogOracle(g *peg.Grammar, b *core.Built, in []byte, o *rtapi.RunOpts, ref *peg.Result, obs *rtapi.Obs) []string {
	if !o.Memoize {
		return nil
	}
	set := map[string]bool{}
	for _, e := range ref.Log {
		set[e.String()] = true
	}
	for i, e := range obs.Log {
		if !set[e.String()] {
			return []string{fmt.Sprintf("memoized run: block event %d %s is not an invocation the reference makes", i, e)}
		}
	}
	return nil
}

func runC02(c *ShardCtx) {
	nontriv := func(ref *peg.Result, obs *rtapi.Obs) bool { return len(ref.Log) >= 2 && ref.Backtracked }
	n := 4
	if c.Thorough() {
		n = 5
		sameNameMaxNodes = 5
	}
	leaves := []*peg.Expr{peg.Lit("a"), peg.Cls(false, false, "a", "b"), peg.Any(), peg.Lit("é"), peg.AndCode(0), peg.NotCode(0), peg.StateCode(0)}
	en := peg.NewEnumerator(peg.Alphabet{Leaves: leaves, Unary: allUnary, Seq: true, Choice: true, MaxArity: 3})
	inputs := peg.Inputs([]string{"a", "b", "\n", "é"}, 3)
	idx := 0
	// labels across -optimize-grammar: a labelled leaf rule inlined next to equally named labels
	// of the enclosing rule must still see its own values (action invocations vs reference)
	for _, g := range sameNameLabelFamily() {
		idx++
		if !c.Mine(idx) {
			continue
		}
		optGrammarVsReference(c, g, []core.Gen{{OptGrammar: true}, {OptGrammar: true, Optimize: true}}, peg.Inputs([]string{"a", "b", "c"}, 3), "-optimize-grammar")
	}
	// left-recursive rules (-support-left-recursion): the action of a grown alternative sees the
	// text from the start of the leader, that start as pos, and the seed as the value of the
	// recursive label - in every growth iteration
	{
		lit := peg.Lit
		var lrs []*peg.Grammar
		for _, t := range []func() *peg.Expr{func() *peg.Expr { return lit("a") }, func() *peg.Expr { return peg.Cls(false, false, "a", "b") }, func() *peg.Expr { return lit("é") }} {
			for _, sep := range []func() *peg.Expr{func() *peg.Expr { return lit("b") }, func() *peg.Expr { return lit("\n") }} {
				lrs = append(lrs,
					&peg.Grammar{Rules: []*peg.Rule{{Name: "S", Expr: peg.Action(0, peg.Seq(peg.Opt(lit("b")), peg.Label("v", peg.Ref("E")), peg.AndCode(0), peg.Star(peg.Any())))},
						{Name: "E", Expr: peg.Choice(peg.Action(0, peg.Seq(peg.Label("l", peg.Ref("E")), sep(), peg.Label("r", peg.Ref("T")), peg.AndCode(0))), peg.Action(0, peg.Label("x", peg.Ref("T"))))},
						{Name: "T", Expr: peg.Action(0, t())}}},
					&peg.Grammar{Rules: []*peg.Rule{{Name: "S", Expr: peg.Action(0, peg.Seq(peg.Label("v", peg.Star(peg.Seq(peg.Ref("E"), peg.Opt(lit(" "))))), peg.Not(peg.Any())))},
						{Name: "E", Expr: peg.Choice(peg.Action(0, peg.Seq(peg.Label("l", peg.Ref("E")), peg.Label("o", sep()), peg.Label("r", t()))), peg.Action(0, t()))}}},
				)
			}
		}
		for _, g := range lrs {
			idx++
			if !c.Mine(idx) {
				continue
			}
			peg.Renumber(g, 1)
			peg.AssignArgs(g)
			fam := &family{gens: []core.Gen{{LeftRec: true}, {LeftRec: true, Optimize: true}}, inputs: peg.Inputs([]string{"a", "b", "\n", "é", " "}, 4), opts: []rtapi.RunOpts{{MaxExpr: 3000, Filename: "f"}},
				scripts: predScripts(g, func(e *peg.Expr) rtapi.Block { return rtapi.Block{} }), nontrivial: nontriv, confEvery: 3, confQuota: 1, cmp: core.CmpOpts{SkipNoMatch: true}}
			runGrammar(c, g, fam)
		}
	}
	// scope family: the label x bound in the rule's sequence and AGAIN inside every scope-opening
	// construct ( & ! ? * + choice alternative, label, recovery ) in a sub-sequence that goes on
	// after the inner binding (so that it can fail or succeed after it): the blocks after the
	// construct still see the outer value
	{
		terms := []func() *peg.Expr{func() *peg.Expr { return peg.Lit("a") }, func() *peg.Expr { return peg.Cls(false, false, "a", "b") }, func() *peg.Expr { return peg.Any() }}
		ops := []func(in *peg.Expr) *peg.Expr{
			func(in *peg.Expr) *peg.Expr { return peg.And(in) }, func(in *peg.Expr) *peg.Expr { return peg.Not(in) }, func(in *peg.Expr) *peg.Expr { return peg.Opt(in) },
			func(in *peg.Expr) *peg.Expr { return peg.Star(in) }, func(in *peg.Expr) *peg.Expr { return peg.Plus(in) },
			func(in *peg.Expr) *peg.Expr { return peg.Choice(in, peg.Lit("a"), peg.Lit("")) }, func(in *peg.Expr) *peg.Expr { return peg.Label("y", in) },
			func(in *peg.Expr) *peg.Expr { return peg.Recover(in, peg.Lit(""), "l") }, func(in *peg.Expr) *peg.Expr { return peg.Action(0, in) },
		}
		for _, t1 := range terms {
			for _, t2 := range terms {
				for _, t3 := range terms {
					for oi, op := range ops {
						idx++
						if !c.Mine(idx) {
							continue
						}
						inner := peg.Seq(peg.Label("x", t2()), t3())
						if oi == len(ops)-1 {
							inner = peg.Seq(peg.Label("z", t2()), t3()) // an action opens no scope: distinct names
						}
						g := &peg.Grammar{Rules: []*peg.Rule{{Name: "S", Expr: peg.Action(0, peg.Seq(peg.Label("x", t1()), op(inner), peg.AndCode(0), peg.Opt(peg.Any())))}}}
						peg.Renumber(g, 1)
						peg.AssignArgs(g)
						fam := &family{gens: gens2, inputs: peg.Inputs([]string{"a", "b"}, 4), opts: []rtapi.RunOpts{{MaxExpr: 600, Filename: "f"}}, scripts: predScripts(g, func(e *peg.Expr) rtapi.Block { return rtapi.Block{} }),
							nontrivial: nontriv, confEvery: 23, confQuota: 1, cmp: core.CmpOpts{SkipNoMatch: true}}
						runGrammar(c, g, fam)
					}
				}
			}
		}
	}
	// recovery scope family: a recovery operator opens one label scope for its guarded and its
	// recovery expression. A label x bound in the guarded expression before a throw that happens in
	// a nested scope (choice alternative, ?, *, label, predicate, called rule, nested sequence); the
	// recovery expression holds a predicate and an action that receive x, may bind y, and an outer x
	// of the enclosing scope must survive; the throw site has its own x in some variants
	{
		lit := peg.Lit
		sites := []func() *peg.Expr{
			func() *peg.Expr { return peg.Throw("l") },
			func() *peg.Expr { return peg.Choice(lit("b"), peg.Throw("l")) },
			func() *peg.Expr { return peg.Opt(peg.Seq(lit("b"), peg.Throw("l"))) },
			func() *peg.Expr { return peg.Star(peg.Seq(peg.Label("x", lit("b")), peg.Throw("l"))) },
			func() *peg.Expr { return peg.Label("z", peg.Seq(peg.Label("x", peg.Opt(lit("b"))), peg.Throw("l"))) },
			func() *peg.Expr { return peg.And(peg.Seq(peg.Opt(lit("b")), peg.Throw("l"))) },
			func() *peg.Expr { return peg.Ref("T") },
		}
		recs := []func() *peg.Expr{
			func() *peg.Expr { return peg.Action(0, peg.Seq(peg.AndCode(0), peg.Opt(lit("b")))) },
			func() *peg.Expr { return peg.Action(0, peg.Seq(peg.Label("y", peg.Opt(peg.Any())), peg.AndCode(0))) },
			func() *peg.Expr { return peg.Seq(peg.Label("y", lit("b")), peg.AndCode(0)) },
		}
		for _, site := range sites {
			for _, rec := range recs {
				for outer := 0; outer < 2; outer++ {
					idx++
					if !c.Mine(idx) {
						continue
					}
					op := peg.Recover(peg.Seq(peg.Label("x", lit("a")), site()), rec(), "l")
					var top *peg.Expr
					if outer == 0 {
						top = peg.Seq(op, peg.AndCode(0), peg.Star(peg.Any()))
					} else {
						top = peg.Seq(peg.Label("x", peg.Opt(lit("b"))), op, peg.AndCode(0), peg.Star(peg.Any()))
					}
					g := &peg.Grammar{Rules: []*peg.Rule{{Name: "S", Expr: peg.Action(0, top)}, {Name: "T", Expr: peg.Seq(peg.Label("x", peg.Opt(lit("b"))), peg.Throw("l"))}}}
					peg.Renumber(g, 1)
					peg.AssignArgs(g)
					fam := &family{gens: gens2, inputs: peg.Inputs([]string{"a", "b"}, 4), opts: []rtapi.RunOpts{{MaxExpr: 600, Filename: "f"}}, scripts: predScripts(g, func(e *peg.Expr) rtapi.Block { return rtapi.Block{} }),
						nontrivial: nontriv, confEvery: 7, confQuota: 1, cmp: core.CmpOpts{SkipNoMatch: true}}
					runGrammar(c, g, fam)
				}
			}
		}
	}
	// thrown values: the value of a recovery expression becomes the value of the throw it handles -
	// here a LABELLED throw y:("b" / %{l}) whose value a predicate and an action read - while the
	// recovery operator itself stands where nobody looks at ITS value (in a repetition below the rule
	// action, below a predicate, as a plain sequence item); recovery expressions that are bare
	// sequences, a terminal, the empty literal
	{
		lit := peg.Lit
		recs := []func() *peg.Expr{
			func() *peg.Expr { return peg.Seq(peg.Any(), peg.Opt(lit("b"))) }, func() *peg.Expr { return peg.Seq(lit("a"), lit("")) },
			func() *peg.Expr { return peg.Any() }, func() *peg.Expr { return lit("") }, func() *peg.Expr { return peg.Seq(peg.Star(lit("a")), lit("b")) },
		}
		for _, rec := range recs {
			for pos := 0; pos < 3; pos++ {
				idx++
				if !c.Mine(idx) {
					continue
				}
				op := peg.Recover(peg.Action(0, peg.Seq(peg.Label("x", lit("a")), peg.Label("y", peg.Choice(lit("b"), peg.Throw("l"))), peg.AndCode(0))), rec(), "l")
				var top *peg.Expr
				switch pos {
				case 0:
					top = peg.Seq(peg.Star(op), peg.Star(peg.Any()))
				case 1:
					top = peg.Seq(peg.And(op), peg.Star(peg.Any()))
				case 2:
					top = peg.Seq(op, peg.Opt(op.Clone()), peg.Star(peg.Any()))
				}
				g := &peg.Grammar{Rules: []*peg.Rule{{Name: "S", Expr: peg.Action(0, top)}}}
				peg.Renumber(g, 1)
				peg.AssignArgs(g)
				fam := &family{gens: gens4, inputs: peg.Inputs([]string{"a", "b"}, 4), opts: []rtapi.RunOpts{{MaxExpr: 600, Filename: "f"}}, scripts: predScripts(g, func(e *peg.Expr) rtapi.Block { return rtapi.Block{} }),
					nontrivial: nontriv, confEvery: 5, confQuota: 1, cmp: core.CmpOpts{SkipNoMatch: true}}
				runGrammar(c, g, fam)
			}
		}
	}
	// line / column family: terminals that span or follow line ends - literals with a newline as
	// first, middle, last and only rune, CR LF, a non-ASCII rune next to a newline, classes and
	// the any matcher consuming a newline - in pairs (adjacent literals are joined by
	// -optimize-grammar), a probe after each; every generation flag set
	{
		lit := peg.Lit
		terms := []func() *peg.Expr{
			func() *peg.Expr { return lit("\n") }, func() *peg.Expr { return lit("\n\n") }, func() *peg.Expr { return lit("\na") }, func() *peg.Expr { return lit("a\n") },
			func() *peg.Expr { return lit("a\nb") }, func() *peg.Expr { return lit("\r\n") }, func() *peg.Expr { return lit("é\n") }, func() *peg.Expr { return peg.LitI("\nA") },
			func() *peg.Expr { return peg.Cls(false, false, "\n", "a") }, func() *peg.Expr { return peg.Cls(true, false, "a") }, func() *peg.Expr { return peg.Any() }, func() *peg.Expr { return lit("ab") },
		}
		var gens8 []core.Gen
		for m := 0; m < 8; m++ {
			gens8 = append(gens8, core.Gen{Optimize: m&1 != 0, BasicLatin: m&2 != 0, OptGrammar: m&4 != 0})
		}
		lineInputs := peg.Inputs([]string{"a", "\n", "b"}, 4)
		for _, s := range []string{"\r\n", "\r\n\n", "é\n", "é\na", "\nA", "\na\n\n", "a\nb\n\n", "\n\n\n\n\n"} {
			lineInputs = append(lineInputs, []byte(s))
		}
		for _, t1 := range terms {
			for _, t2 := range terms {
				idx++
				if !c.Mine(idx) {
					continue
				}
				if c.Expired("line/column family") {
					return
				}
				for shape := 0; shape < 2; shape++ {
					body := peg.Seq(peg.Label("x", t1()), peg.AndCode(0), peg.Label("y", peg.Opt(t2())), peg.AndCode(0), peg.Label("z", peg.Star(peg.Action(0, peg.Any()))))
					if shape == 1 {
						// two adjacent literals (joined by -optimize-grammar) after a backtracked attempt
						body = peg.Seq(peg.Choice(peg.Seq(t1(), t2(), lit("q")), peg.Seq(t1(), t2())), peg.AndCode(0), peg.Label("z", peg.Opt(peg.Action(0, peg.Any()))))
					}
					g := &peg.Grammar{Rules: []*peg.Rule{{Name: "S", Expr: peg.Action(0, body)}}}
					peg.Renumber(g, 1)
					peg.AssignArgs(g)
					scripts := []map[int]*rtapi.Block{nil}
					for _, gen := range gens8 {
						co := core.CmpOpts{SkipNoMatch: true}
						if gen.OptGrammar {
							co.FlatVal, co.EventKey = true, flatKey(nil)
						}
						runGrammar(c, g, &family{gens: []core.Gen{gen}, inputs: lineInputs, opts: []rtapi.RunOpts{{MaxExpr: 600, Filename: "f"}}, scripts: scripts, nontrivial: nontriv, confEvery: 97, confQuota: 1, cmp: co})
						c.Res.Grammars--
					}
					c.Res.Grammars++
				}
			}
		}
	}
	// cross family (cross.go): every construct x every flag set; the complete block log
	{
		if !runCross(c, &idx, &crossSpec{maxSize: 3, gens: gens16, inputs: crossInputsSmall, opts: []rtapi.RunOpts{{MaxExpr: 600, Filename: "f"}}, scripts: crossPredScripts, nontrivial: nontriv,
			cmp: core.CmpOpts{SkipNoMatch: true}}) {
			return
		}
	}
	for size := 1; size <= n; size++ {
		for _, body := range en.Size(size) {
			for _, lab := range labelings(body, 2) {
				idx++
				if !c.Mine(idx) {
					continue
				}
				if c.Expired("cut at body size " + itoa(size)) {
					return
				}
				g := &peg.Grammar{Rules: []*peg.Rule{{Name: "S", Expr: peg.Action(0, lab)}}}
				peg.Renumber(g, 1)
				peg.AssignArgs(g)
				scripts := predScripts(g, func(e *peg.Expr) rtapi.Block { return rtapi.Block{} })
				hasLabelReader := false
				for _, b := range g.Blocks() {
					if len(b.Args) > 0 {
						hasLabelReader = true
					}
				}
				opts := []rtapi.RunOpts{{MaxExpr: 600, Filename: "f"}}
				fam := &family{gens: gens2, inputs: inputs, opts: opts, scripts: scripts, nontrivial: nontriv, confEvery: 197, confQuota: 1, cmp: core.CmpOpts{SkipNoMatch: true}}
				runGrammar(c, g, fam)
				if !hasLabelReader && !g.Has(peg.KState) && (size <= 3 || c.Thorough()) {
					famM := &family{gens: gensPlain, inputs: inputs, opts: []rtapi.RunOpts{{MaxExpr: 600, Filename: "f", Memoize: true}}, scripts: scripts,
						nontrivial: nontriv, cmp: core.CmpOpts{SkipLog: true, SkipNoMatch: true}, extra: memoLogOracle}
					runGrammar(c, g, famM)
				}
			}
		}
	}
}
