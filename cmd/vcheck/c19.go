package main

import (
	"bytes"
	"crypto/sha256"
	"encoding/json"
	"fmt"
	"os"
	"os/exec"
	"path/filepath"
	"sort"
	"strings"

	"verif/engine/core"
	"verif/engine/hook"
	"verif/engine/peg"
)

func init() {
	register(&Check{
		ID: "C19", Level: "model_checking", QuickSecs: 170, ThoroughSecs: 1500,
		Rule:        "Nondeterminism explorer over Go map iteration order: pigeon is built with an overlay in which every range statement over a map in packages ast and builder (type-directed rewrite, 24 sites) iterates in a harness-chosen order. Default = sorted at every dynamic site; a deviation = any other order at one dynamic site (all n! permutations for maps of <= 4 keys, the n rotations and the reversal above). Grammars: every pair of rules with bodies alt1 / alt2 over {A, B, A 'a', B 'a', A B 'z', B A 'z', \"\", 'a'} and a slice of the triples over 5 alternatives (thorough: all) that have at least one first-call cycle, with -support-left-recursion and with -support-left-recursion -optimize-grammar, plus an independent components family (a mutually left-recursive pair next to directly left-recursive rules / a second pair, every rotation of the definition order); late-nullable choice family (R <- X / P D: X nullable only through the fixpoint, P a nullable prefix with a cached flag - rule reference, choice, sequence, action - and D closing a cycle through R only behind P; 144 grammars); optimizer family (leaf rules referenced from several places; dead rules referring to several live and dead rules) with -optimize-grammar. Every execution with <= 1 deviation is run (<= 2 deviations for grammars with <= 10 dynamic sites): the outcome (error text | per-rule nullable/leftRecursive/leader flags and optimised AST; emitted bytes once per distinct analysis outcome, after checking that no map site fires during emission) must be identical for every order. History independence: every ordered pair and triple over 6 (grammar, flags) requests sent to one fresh server process must give, for each request, the answer the same request gets alone in a fresh process. Binding: the uninstrumented pigeon binary is run repeatedly; its output must equal the sorted-order outcome, and an order dependence found by the explorer is re-observed on it. Plus an emission family (two rich grammars under all 32 flag combinations incl. -nolint; every cross body of <= 2 nodes under 16): when a map is consulted during emission the emitted bytes are compared for every explored order.",
		Assumptions: []string{"every permutation of a map's keys is a legal iteration order of the real implementation", "the rewrite keeps Go's semantics (entries deleted during the loop are skipped; entries added are not visited, which Go permits)"},
		Run:         runC19,
	})
}

type orderExplorer struct {
	c   *ShardCtx
	srv *hook.Server
	// fresh: run every execution in a process of its own (bin) instead of the long-lived server
	fresh bool
	bin   string
}

func outcomeKey(r *hook.Resp) string {
	if r.Hung {
		return "HANG"
	}
	if r.Panic != "" {
		return "PANIC " + r.Panic
	}
	if r.Err != "" {
		return "ERR " + r.ErrKind + ": " + r.Err
	}
	if r.Src != nil {
		h := sha256.Sum256(r.Src)
		return fmt.Sprintf("SRC %x", h[:8])
	}
	// the rule-level nullable flag is an intermediate result that is never
	// emitted; leftRecursive / leader (and everything else) are
	if r.AST != nil {
		for _, k := range r.AST.Kids {
			k.Nullable = false
		}
	}
	b, _ := json.Marshal(struct {
		A *hook.Node
		L bool
	}{r.AST, r.HaveLR})
	h := sha256.Sum256(b)
	return fmt.Sprintf("AST %x lr=%v", h[:8], r.HaveLR)
}

func flagsDesc(req *hook.Req) string {
	return strings.Join(argvOf(req), " ")
}

// explore runs every order with at most bound deviations and returns the
// distinct outcomes with one witness order each.
func (x *orderExplorer) explore(base hook.Req, bound int) (map[string][]int, int) {
	outcomes := map[string][]int{}
	execs := 0
	var rec func(prefix []int, from int, left int)
	rec = func(prefix []int, from int, left int) {
		req := base
		req.Order = prefix
		var r *hook.Resp
		var err error
		if x.fresh {
			// one process per execution: what an earlier build left behind in the process (package-level
			// sets, caches) cannot make all orders look alike
			fs, err2 := hook.Start(x.bin)
			if err2 != nil {
				panic(&core.HarnessError{Msg: err2.Error()})
			}
			r, err = fs.Call(&req)
			fs.Close()
			x.c.Res.Counters["executions_in_a_fresh_process"]++
		} else {
			r, err = x.srv.Call(&req)
		}
		if err != nil {
			panic(&core.HarnessError{Msg: err.Error()})
		}
		execs++
		x.c.Res.States++
		k := outcomeKey(r)
		if _, ok := outcomes[k]; !ok {
			outcomes[k] = append([]int(nil), prefix...)
		}
		if left == 0 {
			return
		}
		for i := from; i < len(r.Sites); i++ {
			alts := alternatives(r.Sites[i].N)
			for a := 1; a < alts; a++ {
				p := make([]int, i+1)
				copy(p, prefix)
				p[i] = a
				x.c.Res.Transitions++
				rec(p, i+1, left-1)
			}
		}
	}
	rec(nil, 0, bound)
	return outcomes, execs
}

func alternatives(n int) int {
	switch {
	case n <= 1:
		return 1
	case n <= 4:
		f := 1
		for i := 2; i <= n; i++ {
			f *= i
		}
		return f
	}
	return n + 1
}

func runC19(c *ShardCtx) {
	srv, err := hook.Start(filepath.Join(core.Root(), "build", "bin", "pigeon-verif-order"))
	if err != nil {
		panic(&core.HarnessError{Msg: err.Error()})
	}
	defer srv.Close()
	x := &orderExplorer{c: c, srv: srv, bin: filepath.Join(core.Root(), "build", "bin", "pigeon-verif-order")}
	bindEvery := 61
	realBin := filepath.Join(core.Root(), "build", "bin", "pigeon")
	idx := 0
	one := func(g *peg.Grammar, flagSets []hook.Req) {
		idx++
		if !c.Mine(idx) {
			return
		}
		text := peg.Print(g, &peg.PrintOpts{Package: "p"})
		c.Res.Grammars++
		for _, fl := range flagSets {
			base := fl
			base.Mode = "analyze"
			base.Text = []byte(text)
			// sites during emission? (default order, once per grammar and flag set)
			d0, err := srv.Call(&base)
			if err != nil {
				panic(&core.HarnessError{Msg: err.Error()})
			}
			bb := base
			bb.Mode = "build"
			b0, err := srv.Call(&bb)
			if err != nil {
				panic(&core.HarnessError{Msg: err.Error()})
			}
			emissionSites := len(b0.Sites) != len(d0.Sites)
			if emissionSites {
				base.Mode = "build" // compare bytes for every order
				c.Res.Counters["grammars_with_map_sites_in_emission"]++
			}
			bound := 1
			if len(d0.Sites) <= 10 {
				bound = 2
			}
			outcomes, execs := x.explore(base, bound)
			c.Res.Evaluations += int64(execs)
			if len(d0.Sites) >= 4 {
				c.Res.Nontrivial++
			}
			if idx%97 == 5 {
				c.Sample(map[string]any{"grammar": oneLine(text), "flags": flagsDesc(&fl), "dynamic_sites": len(d0.Sites), "executions": execs, "distinct_outcomes": len(outcomes)})
			}
			// emitted bytes: once per distinct analysis outcome
			srcs := map[string]bool{}
			if !emissionSites {
				for _, order := range outcomes {
					rq := bb
					rq.Order = order
					r, err := srv.Call(&rq)
					if err != nil {
						panic(&core.HarnessError{Msg: err.Error()})
					}
					srcs[outcomeKey(r)] = true
				}
			}
			if len(outcomes) > 1 || len(srcs) > 1 {
				var ks []string
				for k, o := range outcomes {
					ks = append(ks, fmt.Sprintf("%s (order %v)", k, o))
				}
				sort.Strings(ks)
				desc := fmt.Sprintf("generation depends on map iteration order: %d distinct outcomes over %d executions", len(outcomes), execs)
				// re-observe on the uninstrumented binary
				seen := map[string]bool{}
				for i := 0; i < 200 && len(seen) < 2; i++ {
					seen[runReal(realBin, text, &fl)] = true
				}
				if len(seen) >= 2 {
					desc += "; re-observed on the real binary (>= 2 distinct outputs)"
				} else {
					desc += "; NOT re-observed in 200 runs of the real binary (a rare order)"
				}
				c.Res.Conformance += 1
				c.Report(Violation{Desc: desc, Grammar: text, Gen: flagsDesc(&fl), Diffs: ks}, "")
			} else if idx%bindEvery == 3%bindEvery {
				// binding: the sorted-order emission equals what the real binary prints
				want := b0
				got := runReal(realBin, text, &fl)
				c.Res.Conformance++
				if want.Err == "" && want.Panic == "" {
					// the real binary formats with goimports; compare after the same formatting via main mode
					m := hook.Req{Mode: "main", Text: []byte(text), Argv: argvOf(&fl)}
					mr, err := srv.Call(&m)
					if err != nil {
						panic(&core.HarnessError{Msg: err.Error()})
					}
					h := sha256.Sum256(mr.Stdout)
					// repeated runs of the real tool, and a repeated build inside the server process, print
					// the same bytes (sources of nondeterminism other than map order: addresses, time,
					// process ids, counters that survive a build)
					again := map[string]bool{got: true}
					for i := 0; i < 3; i++ {
						again[runReal(realBin, text, &fl)] = true
					}
					mr2, err := srv.Call(&m)
					if err != nil {
						panic(&core.HarnessError{Msg: err.Error()})
					}
					h2 := sha256.Sum256(mr2.Stdout)
					switch {
					case len(again) > 1:
						c.Report(Violation{Desc: fmt.Sprintf("4 runs of the real binary print %d different files", len(again)), Grammar: text, Gen: flagsDesc(&fl)}, "")
					case h != h2:
						c.Report(Violation{Desc: "two builds of the same grammar in one process print different files", Grammar: text, Gen: flagsDesc(&fl)}, "")
					case got != fmt.Sprintf("%x", h[:8]):
						// the long-lived server process differs from the real binary: does a FRESH process of
						// the instrumented build agree with the binary? Then the difference is what the
						// server built before (history), which the property forbids; otherwise the harness
						// is at fault
						fs, err := hook.Start(x.bin)
						if err != nil {
							panic(&core.HarnessError{Msg: err.Error()})
						}
						fr, err := fs.Call(&m)
						fs.Close()
						if err != nil {
							panic(&core.HarnessError{Msg: err.Error()})
						}
						fh := sha256.Sum256(fr.Stdout)
						if got == fmt.Sprintf("%x", fh[:8]) {
							c.Report(Violation{Desc: "repeated builds inside one process: a process that has built other grammars before prints another file for this grammar than a fresh process (and than the real binary)", Grammar: text, Gen: flagsDesc(&fl)}, "")
						} else {
							panic(&core.HarnessError{Msg: "instrumented build (sorted order) and real binary print different parsers for\n" + text})
						}
					}
				}
			}
		}
	}
	lrSets := []hook.Req{{LeftRec: true}, {LeftRec: true, OptGrammar: true}}
	lit := peg.Lit
	alts2 := func(a, b string) []*peg.Expr {
		return []*peg.Expr{peg.Ref(a), peg.Ref(b), peg.Seq(peg.Ref(a), lit("a")), peg.Seq(peg.Ref(b), lit("a")), peg.Seq(peg.Ref(a), peg.Ref(b), lit("z")), peg.Seq(peg.Ref(b), peg.Ref(a), lit("z")), lit(""), lit("a")}
	}
	mkBody := func(alts []*peg.Expr, i, j int) *peg.Expr {
		if i == j {
			return alts[i].Clone()
		}
		return peg.Choice(alts[i].Clone(), alts[j].Clone())
	}
	// two rules
	a2 := alts2("A", "B")
	for i := range a2 {
		for j := range a2 {
			for k := range a2 {
				for l := range a2 {
					if c.Expired("two-rule family") {
						return
					}
					g := &peg.Grammar{Rules: []*peg.Rule{{Name: "A", Expr: mkBody(a2, i, j)}, {Name: "B", Expr: mkBody(a2, k, l)}}}
					if !peg.Analyze(g).HasCycle() {
						continue
					}
					one(g, lrSets)
				}
			}
		}
	}
	// three rules: alternatives {next, prev, next prev 'z', "", 'a'}
	names := []string{"A", "B", "T"}
	alts3 := func(r int) []*peg.Expr {
		nx, pv := names[(r+1)%3], names[(r+2)%3]
		return []*peg.Expr{peg.Ref(nx), peg.Ref(pv), peg.Seq(peg.Ref(nx), peg.Ref(pv), lit("z")), lit(""), lit("a"), peg.Seq(peg.Ref(pv), lit("k"))}
	}
	cnt := 0
	var bodies [3][]*peg.Expr
	for r := 0; r < 3; r++ {
		al := alts3(r)
		for i := range al {
			for j := range al {
				bodies[r] = append(bodies[r], mkBody(al, i, j))
			}
		}
	}
	for _, b0 := range bodies[0] {
		for _, b1 := range bodies[1] {
			for _, b2 := range bodies[2] {
				cnt++
				if !c.Thorough() && cnt%9 != 0 {
					continue
				}
				if c.Expired("three-rule family") {
					return
				}
				g := &peg.Grammar{Rules: []*peg.Rule{{Name: "A", Expr: b0.Clone()}, {Name: "B", Expr: b1.Clone()}, {Name: "T", Expr: b2.Clone()}}}
				if !peg.Analyze(g).HasCycle() {
					continue
				}
				one(g, lrSets[:1])
			}
		}
	}
	// independent components: a mutually left-recursive pair next to one or two rules that are
	// left-recursive on their own and to a second pair, in every definition order (what the
	// analysis does for one component must not depend on the others or on their order)
	{
		pair := func(x, y string) []*peg.Rule {
			return []*peg.Rule{{Name: x, Expr: peg.Choice(peg.Seq(peg.Ref(y), lit("a")), lit("x"))}, {Name: y, Expr: peg.Choice(peg.Seq(peg.Ref(x), lit("b")), lit("y"))}}
		}
		direct := func(n string) *peg.Rule {
			return &peg.Rule{Name: n, Expr: peg.Choice(peg.Seq(peg.Ref(n), lit("c")), lit("z"))}
		}
		sets := [][]*peg.Rule{
			append(pair("P", "Q"), direct("L")), append([]*peg.Rule{direct("L")}, pair("P", "Q")...), append(pair("P", "Q"), direct("A"), direct("Z")),
			append(pair("P", "Q"), pair("A", "B")...), append(pair("A", "Q"), pair("B", "P")...), {direct("A"), direct("B"), direct("C")},
		}
		for _, rs := range sets {
			for rot := 0; rot < len(rs); rot++ {
				if c.Expired("independent components family") {
					return
				}
				var rules []*peg.Rule
				var refs []*peg.Expr
				for k := range rs {
					r := rs[(k+rot)%len(rs)]
					rules = append(rules, &peg.Rule{Name: r.Name, Expr: r.Expr.Clone()})
					refs = append(refs, peg.Ref(r.Name))
				}
				g := &peg.Grammar{Rules: append([]*peg.Rule{{Name: "S", Expr: peg.Choice(refs...)}}, rules...)}
				one(g, lrSets)
			}
		}
	}
	// large components: a ring of 7 (8) rules with chords - rules reached over two different paths
	// (diamonds), several candidates for the leader - every set of at most two chords out of six
	{
		for _, n := range []int{7, 8} {
			name := func(i int) string { return string(rune('A' + i%n)) }
			chords := [][2]int{{0, 2}, {0, 3}, {1, 4}, {2, 5}, {4, 1}, {5, 2}}
			for m := 0; m < 1<<len(chords); m++ {
				cnt := 0
				for k := range chords {
					if m&(1<<k) != 0 {
						cnt++
					}
				}
				if cnt > 2 || (n == 8 && cnt != 2) {
					continue
				}
				if c.Expired("large component family") {
					return
				}
				var rules []*peg.Rule
				for i := 0; i < n; i++ {
					alts := []*peg.Expr{peg.Seq(peg.Ref(name(i+1)), lit("x"))}
					for k, ch := range chords {
						if m&(1<<k) != 0 && ch[0] == i {
							alts = append(alts, peg.Seq(peg.Ref(name(ch[1])), lit("y")))
						}
					}
					alts = append(alts, lit(string(rune('a'+i))))
					rules = append(rules, &peg.Rule{Name: name(i), Expr: peg.Choice(alts...)})
				}
				one(&peg.Grammar{Rules: rules}, lrSets[:1])
			}
		}
	}
	// late-nullable choice family: R <- X / P D where X becomes nullable only through the
	// fixpoint, P is a nullable prefix with a cached flag and D closes a cycle through R only
	// behind P (4 rules, or 3 with an inline prefix); both alternative orders
	{
		opt := func(e *peg.Expr) *peg.Expr { return peg.Opt(e) }
		xs := []func() []*peg.Rule{
			func() []*peg.Rule {
				return []*peg.Rule{{Name: "X", Expr: peg.Choice(peg.Seq(peg.Ref("R"), lit("x")), lit(""))}}
			},
			func() []*peg.Rule {
				return []*peg.Rule{{Name: "X", Expr: peg.Choice(peg.Seq(peg.Ref("R"), lit("x")), opt(lit("y")))}}
			},
			func() []*peg.Rule {
				return []*peg.Rule{{Name: "X", Expr: peg.Choice(lit(""), peg.Seq(peg.Ref("R"), lit("x")))}}
			},
			func() []*peg.Rule {
				return []*peg.Rule{{Name: "X", Expr: peg.Ref("Z")}, {Name: "Z", Expr: peg.Choice(peg.Seq(peg.Ref("R"), lit("x")), lit(""))}}
			},
		}
		type prefix struct {
			e     func() *peg.Expr
			rules func() []*peg.Rule
		}
		ps := []prefix{
			{func() *peg.Expr { return peg.Ref("Y") }, func() []*peg.Rule { return []*peg.Rule{{Name: "Y", Expr: opt(lit("y"))}} }},
			{func() *peg.Expr { return peg.Ref("Y") }, func() []*peg.Rule { return []*peg.Rule{{Name: "Y", Expr: lit("")}} }},
			{func() *peg.Expr { return peg.Ref("Y") }, func() []*peg.Rule { return []*peg.Rule{{Name: "Y", Expr: peg.Star(lit("y"))}} }},
			{func() *peg.Expr { return peg.Choice(lit(""), lit("a")) }, func() []*peg.Rule { return nil }},
			{func() *peg.Expr { return peg.Seq(lit(""), lit("")) }, func() []*peg.Rule { return nil }},
			{func() *peg.Expr { return peg.Action(0, lit("")) }, func() []*peg.Rule { return nil }},
		}
		ds := []func() *peg.Expr{
			func() *peg.Expr { return peg.Seq(peg.Ref("R"), lit("d")) }, func() *peg.Expr { return peg.Ref("R") },
			func() *peg.Expr { return peg.Seq(opt(lit("d")), peg.Ref("R")) },
		}
		for _, xr := range xs {
			for _, pr := range ps {
				for _, d := range ds {
					for order := 0; order < 2; order++ {
						if c.Expired("late-nullable choice family") {
							return
						}
						alts := []*peg.Expr{peg.Ref("X"), peg.Seq(pr.e(), peg.Ref("D"))}
						if order == 1 {
							alts[0], alts[1] = alts[1], alts[0]
						}
						g := &peg.Grammar{Rules: []*peg.Rule{{Name: "R", Expr: peg.Choice(alts...)}}}
						g.Rules = append(g.Rules, xr()...)
						g.Rules = append(g.Rules, pr.rules()...)
						g.Rules = append(g.Rules, &peg.Rule{Name: "D", Expr: d()})
						peg.Renumber(g, 1)
						one(g, lrSets[:1])
					}
				}
			}
		}
	}
	// first-set family: the sets InitialNames() hands out for terminals, code expressions and throws
	// (no names) next to a recovery operator whose recovery expression starts with a rule: S loops
	// over W X; X <- T //{l} R with T a terminal / code expression / throw, alone or under a label,
	// a predicate, ? * +; R <- K; K starts with a terminal (sequence, choice, action). What the
	// first-call graph says about K must not depend on whether X was visited before K
	{
		ts := []func() *peg.Expr{
			func() *peg.Expr { return lit(";") }, func() *peg.Expr { return peg.Cls(false, false, ";") }, func() *peg.Expr { return peg.Any() },
			func() *peg.Expr { return peg.AndCode(0) }, func() *peg.Expr { return peg.StateCode(0) }, func() *peg.Expr { return peg.Throw("l") },
			func() *peg.Expr { return peg.Label("x", lit(";")) }, func() *peg.Expr { return peg.And(lit(";")) }, func() *peg.Expr { return peg.Opt(lit(";")) },
			func() *peg.Expr { return peg.Plus(peg.Cls(false, false, ";")) }, func() *peg.Expr { return peg.Not(peg.Any()) },
		}
		ks := []func() *peg.Expr{
			func() *peg.Expr { return peg.Seq(peg.Star(peg.Cls(true, false, ";")), lit(";")) }, func() *peg.Expr { return peg.Choice(lit(";"), lit("a")) },
			func() *peg.Expr { return peg.Action(0, lit(";")) }, func() *peg.Expr { return peg.Seq(lit("a"), peg.Ref("R")) },
		}
		for _, t := range ts {
			for _, k := range ks {
				for shape := 0; shape < 2; shape++ {
					if c.Expired("first-set family") {
						return
					}
					var xe *peg.Expr
					if shape == 0 {
						xe = peg.Recover(t(), peg.Ref("R"), "l")
					} else {
						xe = peg.Recover(peg.Seq(t(), lit("q")), peg.Seq(peg.Opt(lit("a")), peg.Ref("R")), "l")
					}
					g := &peg.Grammar{Rules: []*peg.Rule{
						{Name: "S", Expr: peg.Seq(peg.Star(peg.Seq(peg.Ref("W"), peg.Ref("X"))), peg.Not(peg.Any()))},
						{Name: "X", Expr: xe}, {Name: "W", Expr: peg.Plus(peg.Cls(false, false, "a-z"))}, {Name: "R", Expr: peg.Ref("K")}, {Name: "K", Expr: k()}}}
					peg.Renumber(g, 1)
					peg.AssignArgs(g)
					x.fresh, bindEvery = true, 1
					one(g, append([]hook.Req{{}}, lrSets[:1]...))
					x.fresh, bindEvery = false, 61
				}
			}
		}
	}
	// emission family: what the builder WRITES (tables, names, blocks, literals) under every
	// combination of the generation flags: grammars with several different classes, literals,
	// labels, blocks of all kinds, recovery, a left-recursive rule; and every body of the cross
	// family (cross.go) up to 2 nodes. A map consulted while emitting shows as a site; the bytes
	// are then compared for every explored order.
	{
		var all []hook.Req
		for m := 0; m < 32; m++ {
			all = append(all, hook.Req{Optimize: m&1 != 0, BasicLatin: m&2 != 0, OptGrammar: m&4 != 0, LeftRec: m&8 != 0, Nolint: m&16 != 0})
		}
		cl := func(inv, ic bool, items ...string) *peg.Expr { return peg.Cls(inv, ic, items...) }
		rich := []*peg.Grammar{
			{Rules: []*peg.Rule{
				{Name: "S", Expr: peg.Action(0, peg.Seq(peg.Label("x", cl(false, false, "a", "b")), cl(false, true, "c-d"), cl(true, false, "e"), cl(false, false, `\pL`), lit("x"), peg.LitI("y"), peg.Label("y", peg.Ref("A")), peg.Ref("B"), peg.Ref("E")))},
				{Name: "A", Display: "an A", Expr: peg.Choice(cl(false, false, "a", "b"), cl(false, false, "0-9"), cl(false, true, "a-f"))},
				{Name: "B", Expr: peg.Seq(peg.Action(0, peg.Label("z", cl(false, true, "a-f"))), peg.AndCode(0), peg.NotCode(0), peg.StateCode(0), peg.Recover(peg.Choice(lit("q"), peg.Throw("l")), cl(false, false, "x-z"), "l"))},
				{Name: "E", Expr: peg.Choice(peg.Seq(peg.Ref("E"), cl(false, false, "+", "-"), peg.Ref("A")), peg.Ref("A"))},
			}},
			{Rules: []*peg.Rule{
				{Name: "S", Expr: peg.Seq(peg.Star(peg.Choice(peg.Ref("W"), peg.Ref("N"), peg.Ref("P"))), peg.Not(peg.Any()))},
				{Name: "W", Expr: peg.Plus(cl(false, true, "a-z", "_"))}, {Name: "N", Expr: peg.Plus(cl(false, false, "0-9"))}, {Name: "P", Expr: cl(false, false, " ", "\t", "\n", ",", ";")},
				{Name: "X1", Expr: cl(true, true, "a-z")}, {Name: "X2", Expr: cl(false, false, `\p{Nd}`, "é")}, {Name: "X3", Expr: cl(false, false, "a-z", "_")},
				// (classes whose members repeat, overlap and tie after case folding: ranges with the same
				// lower-cased start and different ends, the same range twice, chars inside ranges)
				{Name: "X4", Expr: cl(false, true, "a-c", "A-F", "a-z", "A-C", "b", "B")}, {Name: "X5", Expr: cl(true, true, "A-F", "a-c", "a-a", "A-Z", "k", "K", "\u212a")},
				{Name: "X6", Expr: cl(false, false, "a-c", "a-f", "a-c", "a", "a")},
			}},
		}
		for _, g := range rich {
			if c.Expired("emission family") {
				return
			}
			g = g.Clone()
			peg.Renumber(g, 1)
			peg.AssignArgs(g)
			one(g, all)
		}
		for size := 1; size <= 2; size++ {
			for _, body := range crossBodies(size) {
				if c.Expired("emission family") {
					return
				}
				for _, lr := range []bool{false, true} {
					var fs []hook.Req
					for _, f := range all[:16] {
						if f.LeftRec == lr {
							fs = append(fs, f)
						}
					}
					hasR := false
					for _, r := range peg.RefsOf(body) {
						hasR = hasR || r == "R"
					}
					if lr && !hasR {
						continue
					}
					one(crossGrammar(body, lr), fs)
				}
			}
		}
	}
	// optimizer family
	optSet := []hook.Req{{OptGrammar: true}, {OptGrammar: true, AltEntry: []string{"B"}}}
	leafs := []*peg.Expr{lit("a"), peg.Choice(lit("a"), lit("b")), peg.Seq(lit("a"), lit("b")), peg.Cls(false, false, "a", "b")}
	en := peg.NewEnumerator(peg.Alphabet{Leaves: []*peg.Expr{lit("a"), peg.Cls(false, false, "c"), peg.Ref("A"), peg.Ref("B"), peg.Ref("C")}, Unary: []peg.Kind{peg.KStar, peg.KNot}, Seq: true, Choice: true, MaxArity: 3, NestSame: true})
	for _, body := range en.UpTo(4) {
		if len(peg.RefsOf(body)) < 2 {
			continue
		}
		if c.Expired("optimizer family") {
			return
		}
		g := &peg.Grammar{Rules: []*peg.Rule{{Name: "S", Expr: body.Clone()}, {Name: "A", Expr: leafs[idx%4].Clone()}, {Name: "B", Expr: peg.Seq(peg.Ref("C"), lit("b"))}, {Name: "C", Expr: leafs[(idx+1)%4].Clone()}, {Name: "Unused", Expr: peg.Ref("A")}}}
		one(g, optSet)
		// dead rules referring to several rules, some of them dead themselves (the order in which
		// the bookkeeping of removed rules is cleaned up must not matter)
		if len(peg.Nodes(body)) <= 3 {
			g2 := &peg.Grammar{Rules: []*peg.Rule{{Name: "S", Expr: body.Clone()}, {Name: "A", Expr: leafs[idx%4].Clone()}, {Name: "B", Expr: peg.Seq(peg.Ref("C"), lit("b"))}, {Name: "C", Expr: leafs[(idx+1)%4].Clone()},
				{Name: "Dead", Expr: peg.Seq(peg.Ref("D1"), peg.Ref("D2"), peg.Ref("D3"), peg.Ref("A"))}, {Name: "D1", Expr: peg.Seq(lit("x"), peg.Ref("C"))}, {Name: "D2", Expr: peg.Seq(lit("y"), peg.Ref("D1"))}, {Name: "D3", Expr: lit("z")}}}
			one(g2, optSet)
		}
	}
	// history independence (all sequences of 2 and 3 builds out of 6 requests in one process, plus EVERY ordered pair of builds of a 5 grammars x 5 flag sets matrix whose members need different parts of the emitted runtime) (shard 0 only)
	if c.Shard == 0 {
		historyIndependence(c)
	}
}

func argvOf(fl *hook.Req) []string {
	var a []string
	if fl.Optimize {
		a = append(a, "-optimize-parser")
	}
	if fl.BasicLatin {
		a = append(a, "-optimize-basic-latin")
	}
	if fl.Nolint {
		a = append(a, "-nolint")
	}
	if fl.LeftRec {
		a = append(a, "-support-left-recursion")
	}
	if fl.OptGrammar {
		a = append(a, "-optimize-grammar")
	}
	if len(fl.AltEntry) > 0 {
		a = append(a, "-alternate-entrypoints", strings.Join(fl.AltEntry, ","))
	}
	return a
}

// runReal runs the uninstrumented binary and returns a digest of its output.
func runReal(bin, text string, fl *hook.Req) string {
	cmd := exec.Command(bin, argvOf(fl)...)
	cmd.Stdin = strings.NewReader(text)
	var so, se bytes.Buffer
	cmd.Stdout, cmd.Stderr = &so, &se
	cmd.Run()
	if so.Len() == 0 {
		return "ERR " + se.String()
	}
	h := sha256.Sum256(so.Bytes())
	return fmt.Sprintf("%x", h[:8])
}

func historyIndependence(c *ShardCtx) {
	reqs := []hook.Req{
		{Mode: "build", Text: []byte("{\npackage p\n}\nA <- B / \"\"\nB <- A T 'z'\nT <- B 'k' / 'm'\n"), LeftRec: true},
		{Mode: "build", Text: []byte("{\npackage p\n}\nA <- A 'a' { return 1, nil } / 'b' &{ return true, nil }\n"), LeftRec: true, OptGrammar: true},
		{Mode: "build", Text: []byte("{\npackage p\n}\nS <- A 'a' / B\nA <- 'a'\nB <- x:A { return x, nil } / [ab]\n"), OptGrammar: true},
		{Mode: "build", Text: []byte("{\npackage p\n}\nS <- A 'a' / B\nA <- 'a'\nB <- x:A { return x, nil } / [ab]\n")},
		{Mode: "build", Text: []byte("{\npackage p\n}\nA <- A 'a' / 'b'\n")},
		{Mode: "build", Text: []byte("{\npackage p\n}\nE <- E '+' T / T\nT <- T '*' F / F\nF <- [0-9] #{ return nil }\n"), LeftRec: true, Optimize: true},
	}
	bin := core.HookBin()
	alone := make([]string, len(reqs))
	for i := range reqs {
		s, err := hook.Start(bin)
		if err != nil {
			panic(&core.HarnessError{Msg: err.Error()})
		}
		r, err := s.Call(&reqs[i])
		s.Close()
		if err != nil {
			panic(&core.HarnessError{Msg: err.Error()})
		}
		alone[i] = outcomeKey(r)
	}
	var seqs [][]int
	for i := range reqs {
		for j := range reqs {
			seqs = append(seqs, []int{i, j})
			for k := range reqs {
				seqs = append(seqs, []int{i, j, k})
			}
		}
	}
	for _, sq := range seqs {
		s, err := hook.Start(bin)
		if err != nil {
			panic(&core.HarnessError{Msg: err.Error()})
		}
		for pos, i := range sq {
			r, err := s.Call(&reqs[i])
			if err != nil {
				panic(&core.HarnessError{Msg: err.Error()})
			}
			c.Res.Evaluations++
			c.Res.States++
			c.Res.Transitions++
			if k := outcomeKey(r); k != alone[i] {
				c.Report(Violation{Desc: fmt.Sprintf("repeated builds inside one process: request %d as number %d of sequence %v gives %s, alone %s", i, pos+1, sq, k, alone[i]), Grammar: string(reqs[i].Text), Gen: flagsDesc(&reqs[i])}, "")
			}
		}
		s.Close()
	}
	c.Res.Counters["history_sequences"] = int64(len(seqs))
	_ = os.Getenv
	// the grammar x flag matrix: every ORDERED PAIR of builds in one process (a result must not
	// depend on what the process built before: caches keyed too coarsely, builder state that is not
	// reset); grammars differ in what they need from the emitted runtime
	texts := []string{
		"{\npackage p\n}\nS <- 'a' B\nB <- [ab] { return 1, nil }\n",
		"{\npackage p\n}\nS <- 'a' #{ return nil } B\nB <- [\\pL] &{ return true, nil }\n",
		"{\npackage p\n}\nE \"expr\" <- E '+' T / T\nT <- [0-9]\n",
		"{\npackage p\n}\nE <- E '+' T #{ return nil } / T\nT <- [\\p{Nd}x] / %{l} //{l} 'q'\n",
		// (the first text again with a Unicode class: same runtime parameters, one more helper function)
		"{\npackage p\n}\nS <- 'a' B\nB <- [\\p{Lu}b] { return 1, nil }\n",
	}
	flagSets := []hook.Req{{}, {Optimize: true}, {Optimize: true, BasicLatin: true, LeftRec: true}, {LeftRec: true, Nolint: true}, {OptGrammar: true, Optimize: true, LeftRec: true}}
	var matrix []hook.Req
	for _, t := range texts {
		for _, f := range flagSets {
			r := f
			r.Mode, r.Text = "build", []byte(t)
			matrix = append(matrix, r)
		}
	}
	aloneM := make([]string, len(matrix))
	for i := range matrix {
		srv, err := hook.Start(bin)
		if err != nil {
			panic(&core.HarnessError{Msg: err.Error()})
		}
		r, err := srv.Call(&matrix[i])
		srv.Close()
		if err != nil {
			panic(&core.HarnessError{Msg: err.Error()})
		}
		aloneM[i] = outcomeKey(r)
	}
	pairs := 0
	for i := range matrix {
		// one process per first build; every second build in a process that has only built i before
		for j := range matrix {
			srv, err := hook.Start(bin)
			if err != nil {
				panic(&core.HarnessError{Msg: err.Error()})
			}
			for pos, k := range []int{i, j} {
				rq := matrix[k]
				// a caller that keeps its option VALUES and passes them to every build: when the second
				// build has the flags of the first, it gets the very same builder.Option values
				rq.SameOpts = pos == 1 && flagsDesc2(&matrix[i]) == flagsDesc2(&matrix[j])
				if rq.SameOpts {
					c.Res.Counters["builds_with_reused_option_values"]++
				}
				r, err := srv.Call(&rq)
				if err != nil {
					panic(&core.HarnessError{Msg: err.Error()})
				}
				c.Res.Evaluations++
				c.Res.States++
				c.Res.Transitions++
				if key := outcomeKey(r); key != aloneM[k] {
					c.Report(Violation{Desc: fmt.Sprintf("repeated builds inside one process: build %d (flags %s) as number %d after build %d (flags %s) gives %s, alone %s", k, flagsDesc2(&matrix[k]), pos+1, i, flagsDesc2(&matrix[i]), key, aloneM[k]),
						Grammar: string(matrix[k].Text), Gen: flagsDesc2(&matrix[k])}, "")
				}
			}
			srv.Close()
			pairs++
		}
	}
	c.Res.Counters["history_pairs_matrix"] = int64(pairs)
}

func flagsDesc2(r *hook.Req) string {
	var p []string
	for _, f := range []struct {
		on   bool
		name string
	}{{r.Optimize, "-optimize-parser"}, {r.BasicLatin, "-optimize-basic-latin"}, {r.LeftRec, "-support-left-recursion"}, {r.OptGrammar, "-optimize-grammar"}, {r.Nolint, "-nolint"}} {
		if f.on {
			p = append(p, f.name)
		}
	}
	return strings.Join(p, " ")
}
