package main

import (
	"fmt"

	"verif/engine/core"
	"verif/engine/hook"
	"verif/engine/peg"
	"verif/engine/rtapi"
)

func init() {
	register(&Check{
		ID: "C15", Level: "exploration", QuickSecs: 150, ThoroughSecs: 900,
		Rule:        "ALL character classes made of 1..K items (quick K=3, thorough K=4) from {a,Z,_,0,é,a-c,X-b,@-Z,0-é,\\pL,\\p{Nd},\\p{Latin},\\],\\p{Lu},U+212A KELVIN SIGN,U+0100-U+0200,!-U+00FF,l-K(U+212A),j-U+0130,!-_,U+00D7-U+00F7,k,i-k} x inverted x ignore-case, plus EVERY Unicode class name the front-end accepts (about 200) alone, inverted and with i; eight classes per grammar (one rule each, selected with Entrypoint); inputs: each of the 128 Basic Latin runes, every rune U+0080..U+024F, KELVIN SIGN U+212A, ANGSTROM SIGN U+212B, U+FFFD (valid encoding), the invalid byte 0xFF and eleven more invalid byte shapes (0x80, 0x81, 0xBF, overlong lead, truncated 2/3/4-byte sequences, a surrogate, 0xFE; AllowInvalidUTF8 as the option set says) and the empty input; class items also U+0080-U+00FF, U+0080 and U+FFFD. For every (class, input): parser generated with -optimize-basic-latin vs parser generated without it (real vs real), both also against the reference class semantics (member iff some element of the class equals the rune, under simple case folding when i; ^ complements; EOF never matches). Non-trivial = the class matches the rune (table entry true) or the class is case-insensitive.",
		Assumptions: []string{"E1 loader", "reference class semantics for i = simple case folding of both sides"},
		Run:         runC15,
	})
}

func classItems() []string {
	return []string{"a", "Z", "_", "0", "é", "a-c", "X-b", "@-Z", "0-é", `\pL`, `\p{Nd}`, `\p{Latin}`, "]", `\p{Lu}`, "K", "Ā-Ȁ", "!-ÿ", "l-K", "j-İ", "!-_", "×-÷", "k", "i-k", "\u0080-ÿ", "\ufffd", "\u0080"}
}

func runC15(c *ShardCtx) {
	k := 3
	if c.Thorough() {
		k = 4
	}
	items := classItems()
	var classes []*peg.Expr
	var rec func(start int, cur []string)
	rec = func(start int, cur []string) {
		if len(cur) > 0 {
			for _, inv := range []bool{false, true} {
				for _, ic := range []bool{false, true} {
					classes = append(classes, peg.Cls(inv, ic, cur...))
				}
			}
		}
		if len(cur) == k {
			return
		}
		for i := 0; i < len(items); i++ {
			// ordered selections without repetition: order matters for range
			// parsing but not for membership, so combinations suffice
			if i < start {
				continue
			}
			rec(i+1, append(append([]string(nil), cur...), items[i]))
		}
	}
	rec(0, nil)
	// EVERY Unicode class the front-end accepts (hook mode "classes") alone, inverted and with i
	// (tables whose first entry strides out of Latin-1, tables without Latin-1 members, ...)
	if r, err := c.W.Srv.Call(&hook.Req{Mode: "classes"}); err == nil {
		for _, cl := range r.Classes {
			it := `\p{` + cl + `}`
			classes = append(classes, peg.Cls(false, false, it), peg.Cls(true, false, it), peg.Cls(false, true, it), peg.Cls(true, true, it, "0"))
		}
		c.Res.Counters["unicode_classes_swept"] = int64(len(r.Classes))
	} else {
		panic(&core.HarnessError{Msg: err.Error()})
	}
	var inputs [][]byte
	for r := 0; r < 128; r++ {
		inputs = append(inputs, []byte{byte(r)})
	}
	inputs = append(inputs, []byte("é"), []byte("É"), []byte("ǅ"), []byte("�"), []byte{0xff}, []byte{})
	// every rune of Latin-1 Supplement .. Latin Extended-B, and the runes outside Basic Latin
	// whose case orbit reaches into it (KELVIN SIGN, dotted capital I, dotless i, long s)
	for r := rune(0x80); r < 0x250; r++ {
		if r != 'é' && r != 'É' && r != 'ǅ' {
			inputs = append(inputs, []byte(string(r)))
		}
	}
	inputs = append(inputs, []byte("\u212a"), []byte("\u212b"))
	// invalid bytes of every shape as the (only) rune: stray continuation bytes incl. 0x80 and 0xBF, an
	// overlong lead, a truncated two-, three- and four-byte sequence, a surrogate, 0xFE
	for _, bs := range [][]byte{{0x80}, {0x81}, {0xbf}, {0xc0}, {0xc1}, {0xc3}, {0xe2, 0x82}, {0xf0, 0x9f}, {0xed, 0xa0, 0x80}, {0xfe}, {0x80, 'a'}, {0xc3, 'a'}} {
		inputs = append(inputs, bs)
	}
	const per = 8
	idx := 0
	for i := 0; i < len(classes); i += per {
		idx++
		if !c.Mine(idx) {
			continue
		}
		if c.Expired(fmt.Sprintf("class group %d of %d", i/per, len(classes)/per)) {
			return
		}
		g := &peg.Grammar{}
		var opts []rtapi.RunOpts
		for j := i; j < i+per && j < len(classes); j++ {
			name := fmt.Sprintf("C%d", j-i)
			g.Rules = append(g.Rules, &peg.Rule{Name: name, Expr: classes[j]})
			opts = append(opts, rtapi.RunOpts{Entrypoint: strp(name), AllowInvalid: true, MaxExpr: 100})
		}
		text := peg.Print(g, nil)
		c.Res.Grammars++
		plain := buildOrCount(c, text, core.Gen{})
		table := buildOrCount(c, text, core.Gen{BasicLatin: true})
		if plain == nil || table == nil {
			continue
		}
		for oi := range opts {
			cls := classes[i+oi]
			for _, in := range inputs {
				o1, o2 := opts[oi], opts[oi]
				a := plain.Run(in, &o1, nil)
				b := table.Run(in, &o2, nil)
				c.Res.Evaluations++
				c.ConfSample(15013, 2, text, core.Gen{BasicLatin: true}, table, in, o2, nil, b)
				ref := peg.Run(g, in, nil, core.RefOptions(&o1, plain.Flags))
				if ref.Matched || cls.Class.IgnoreCase {
					c.Res.Nontrivial++
				}
				pt := peg.NewPosTable(in)
				var diffs []string
				if a.Val != b.Val || a.ErrNil != b.ErrNil {
					diffs = append(diffs, fmt.Sprintf("with table: %s %v; without: %s %v", b.Val, msgs(b), a.Val, msgs(a)))
				}
				// what i means for a Unicode class item is C01's concern (finding
				// D17b there); here the reference is consulted for all other classes
				refOK := true
				var da, db []string
				if refOK {
					da, _ = core.Compare(ref, a, pt, "", core.CmpOpts{SkipNoMatch: true})
					db, _ = core.Compare(ref, b, pt, "", core.CmpOpts{SkipNoMatch: true})
				}
				for _, d := range da {
					diffs = append(diffs, "general path vs reference: "+d)
				}
				for _, d := range db {
					diffs = append(diffs, "table path vs reference: "+d)
				}
				if oi == 0 && len(in) == 1 && in[0] == 'a' {
					c.Sample(map[string]any{"class": peg.ClassSrc(cls), "input": string(in), "general": a.Val, "table": b.Val})
				}
				if len(diffs) > 0 {
					known := ""
					c.Report(Violation{Desc: diffs[0], Grammar: fmt.Sprintf("%s <- %s", "C", peg.ClassSrc(cls)), Gen: "- vs -optimize-basic-latin", Input: string(in), InputHex: hexOf(in), Opts: optsString(&o1), Diffs: diffs}, known,
						&ConfCase{Text: text, Gen: core.Gen{}, HasState: true, HasMemo: true, Runs: []ConfRun{{Input: in, Opts: o1, Obs: a}}},
						&ConfCase{Text: text, Gen: core.Gen{BasicLatin: true}, HasState: true, HasMemo: true, Runs: []ConfRun{{Input: in, Opts: o2, Obs: b}}})
				}
			}
		}
	}
}

func hasUnicode(e *peg.Expr) bool {
	for _, it := range e.Class.Items {
		if it.Unicode != "" {
			return true
		}
	}
	return false
}

func msgs(o *rtapi.Obs) []string {
	var out []string
	for _, e := range o.Errs {
		out = append(out, e.Msg)
	}
	return out
}
