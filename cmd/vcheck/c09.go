package main

import (
	"fmt"
	"strings"

	"verif/engine/core"
	"verif/engine/hook"
	"verif/engine/peg"
	"verif/engine/rtapi"
)

func init() {
	register(&Check{
		ID: "C09", Level: "exploration", QuickSecs: 170, ThoroughSecs: 1500,
		Rule:        "grammars S <- body ; A <- ... ; B <- ... where body ranges over all expressions (nested choices and sequences allowed) over {'a','b',\"ab\",'a'i,[ab],[^a],[^b],[b]i,.,A,B} x {?,*,+,&,!} up to N nodes (4; thorough adds every 11th 5-node body), A and B over the leaf-rule bodies {'a', \"ab\", [ab], 'a' 'b', 'a'/'b', [^a], x:'a'{act}, 'b'i}; every single label+action decoration of the body; a two-site family (one leaf rule - class with range, class, literal - inlined at two places next to DIFFERENT neighbours the optimizer merges it with, 4 shapes, inputs over {a,b,c}); a same-name label family (labelled leaf rule inlined next to equally named labels of the enclosing rule, 6 shapes); a wide-choice family (5 alternatives: a mergeable pair at every position among unmergeable ones); a recovery family (leaf rules referenced inside and outside recovery operators and throws, 6 shapes x 4 leaf rules; 18 grammars whose rule R is referenced ONLY from a recovery expression - directly, below an action, behind an optional item - and refers on to a rule nothing else uses); a byte literal family (2 or 3 adjacent one-byte literals taken from multi-byte UTF-8 sequences, AllowInvalidUTF8, inputs over those bytes up to 3); a class merge family (also with -optimize-basic-latin on both sides; C C C? !. with C = X1 / X2 [/ X3] for every ordered pair - thorough: triple - of 14 mergeable terminals: classes with chars, overlapping ranges sharing a bound, duplicates, i, ^, one-rune literals incl. non-ASCII and i, the EMPTY literal, a leaf rule; inputs over {a,b,c}); a rule graph family (EVERY reference graph over the rules S, A, B, D whose bodies are a leaf, a chain \"c\" X or a recursive choice \"a\" X / \"b\": dead rules referring to live ones, shared recursive rules; x the alternate-entrypoint sets {}, {A}, {D}, {A,B}; quick: a systematic third plus every graph with two non-leaf rules); every subset of {A,B} as -alternate-entrypoints and every usable entrypoint at run time; all inputs over {a,b} up to L=3 (4). Unoptimized build vs -optimize-grammar build (real vs real) and both vs the reference: same success, same consumed prefix, same action invocations (id, pos, text, flat label values) in the same order, same flat value (regrouping of action-less structure is invisible, action-made values are not). Non-trivial = the optimizer changed the emitted grammar (expression count differs) and the input is matched or backtracks. Plus the cross family (cross.go, bodies <= 3 nodes, unoptimized vs -optimize-grammar, with and without R as alternate entrypoint); two-site neighbours that bring ranges of their own. Plus a command line family: 5 entrypoint lists written in 3 other ways (the flag repeated per name, mixed, = form) through the real main() must print the file the one comma list gives.",
		Assumptions: []string{"E1 loader", "flat value rendering: concatenated matched bytes, action-made values kept"},
		Run:         runC09,
	})
}

func actionKey(e rtapi.Event) string {
	if e.Kind == rtapi.KAction {
		return fmt.Sprintf("a%d@%v t=%q l=%v", e.ID, e.Pos, e.Text, e.Flats)
	}
	return fmt.Sprintf("%c%d l=%v", e.Kind, e.ID, e.Flats)
}

func runC09(c *ShardCtx) {
	n, l, slice := 4, 3, 0
	if c.Thorough() {
		n, l, slice = 4, 4, 11
	}
	inputs := peg.Inputs([]string{"a", "b"}, l)
	leaves := []*peg.Expr{peg.Lit("a"), peg.Lit("b"), peg.Lit("ab"), peg.LitI("a"), peg.Cls(false, false, "a", "b"), peg.Cls(true, false, "a"), peg.Cls(true, false, "b"), peg.Cls(false, true, "b"), peg.Any(), peg.Ref("A"), peg.Ref("B")}
	en := peg.NewEnumerator(peg.Alphabet{Leaves: leaves, Unary: allUnary, Seq: true, Choice: true, MaxArity: 3, NestSame: true})
	leafRules := []*peg.Expr{peg.Lit("a"), peg.Lit("ab"), peg.Cls(false, false, "a", "b"), peg.Seq(peg.Lit("a"), peg.Lit("b")), peg.Choice(peg.Lit("a"), peg.Lit("b")), peg.Cls(true, false, "a"), peg.Action(0, peg.Label("x", peg.Lit("a"))), peg.LitI("b")}
	idx := 0
	allowInvalid := false
	noShard := false
	basicLatin := false // (both builds also with -optimize-basic-latin: tables made from classes the OPTIMIZER built)
	// command line: the entrypoint lists reach the optimizer through main()'s flag handling. Every
	// way of writing a list of 2 or 3 names - one comma list, the flag repeated per name, a repeated
	// flag with a comma list, either order - must print the file that the same names give as ONE
	// comma list (the documented form), and rules named anywhere in it must stay entrypoints
	if c.Shard == 0 {
		text := "{\npackage p\n}\nS <- A B C 'x'\nA <- 'a'\nB <- [bc]\nC <- 'c' / 'd'\nD <- \"unused\"\n"
		call := func(argv []string) *hook.Resp {
			r, err := c.W.Srv.Call(&hook.Req{Mode: "main", Text: []byte(text), Argv: argv})
			if err != nil {
				panic(&core.HarnessError{Msg: err.Error()})
			}
			return r
		}
		for _, names := range [][]string{{"A", "B"}, {"B", "A"}, {"A", "D"}, {"A", "B", "C"}, {"D", "C", "A"}} {
			want := call([]string{"-optimize-grammar", "-alternate-entrypoints", strings.Join(names, ",")})
			if want.Exit != 0 {
				panic(&core.HarnessError{Msg: "command line family: the documented form is rejected: " + string(want.Stderr)})
			}
			var forms [][]string
			rep := []string{"-optimize-grammar"}
			for _, nm := range names {
				rep = append(rep, "-alternate-entrypoints", nm)
			}
			forms = append(forms, rep)
			forms = append(forms, []string{"-alternate-entrypoints", names[0], "-optimize-grammar", "-alternate-entrypoints", strings.Join(names[1:], ",")})
			forms = append(forms, []string{"-alternate-entrypoints=" + strings.Join(names[:len(names)-1], ","), "-alternate-entrypoints=" + names[len(names)-1], "-optimize-grammar"})
			for _, argv := range forms {
				got := call(argv)
				c.Res.Evaluations++
				c.Res.Counters["command_line_forms"]++
				if got.Exit != want.Exit || string(got.Stdout) != string(want.Stdout) {
					miss := ""
					for _, nm := range names {
						if !strings.Contains(string(got.Stdout), "name: \""+nm+"\"") {
							miss += " " + nm
						}
					}
					c.Report(Violation{Desc: fmt.Sprintf("pigeon %s prints another file (exit %d) than pigeon -optimize-grammar -alternate-entrypoints %s (exit %d); rules missing from the optimized parser:%s", strings.Join(argv, " "), got.Exit, strings.Join(names, ","), want.Exit, miss), Grammar: text, Gen: strings.Join(argv, " ")}, "")
				}
			}
		}
	}
	one := func(g *peg.Grammar, alts [][]string) {
		if !noShard {
			idx++
			if !c.Mine(idx) {
				return
			}
		}
		peg.Renumber(g, 1)
		peg.AssignArgs(g)
		text := peg.Print(g, nil)
		c.Res.Grammars++
		for _, alt := range alts {
			plain := buildOrCount(c, text, core.Gen{AltEntry: alt, BasicLatin: basicLatin})
			opt := buildOrCount(c, text, core.Gen{OptGrammar: true, AltEntry: alt, BasicLatin: basicLatin})
			if plain == nil || opt == nil {
				if (plain == nil) != (opt == nil) {
					c.Res.Counters["accepted_only_one_way"]++
				}
				continue
			}
			eps := []*string{nil}
			for _, a := range alt {
				eps = append(eps, strp(a))
			}
			for _, ep := range eps {
				for _, in := range inputs {
					o1 := rtapi.RunOpts{MaxExpr: 600, Entrypoint: ep, AllowInvalid: allowInvalid}
					o2 := o1
					ra := plain.Run(in, &o1, nil)
					rb := opt.Run(in, &o2, nil)
					ref := peg.Run(g, in, nil, core.RefOptions(&o1, plain.Flags))
					c.Res.Evaluations++
					c.ConfSample(40009, 2, text, core.Gen{OptGrammar: true, AltEntry: alt, BasicLatin: basicLatin}, opt, in, o2, nil, rb)
					if ref.Outcome != peg.OResult {
						c.Res.Skipped++
						continue
					}
					if plain.NExprs != opt.NExprs && (ref.Matched || ref.Backtracked) {
						c.Res.Nontrivial++
					}
					var diffs []string
					cmp := func(name string, o *rtapi.Obs) {
						if o.Diverged {
							diffs = append(diffs, name+": did not return")
							return
						}
						if failed(o) == ref.Matched {
							diffs = append(diffs, fmt.Sprintf("%s: match=%v, reference match=%v", name, !failed(o), ref.Matched))
							return
						}
						if ref.Matched && o.Flat != ref.Flat {
							diffs = append(diffs, fmt.Sprintf("%s: flat value %q, reference %q", name, o.Flat, ref.Flat))
						}
						if d := core.CompareLogs(ref.Log, o.Log, actionKey); d != "" {
							diffs = append(diffs, name+": "+d)
						}
					}
					cmp("unoptimized", ra)
					cmp("-optimize-grammar", rb)
					if len(in) == 2 && ep == nil {
						c.Sample(map[string]any{"grammar": oneLine(text), "alternate_entrypoints": alt, "input": string(in), "flat": rb.Flat, "exprs_before": plain.NExprs, "exprs_after": opt.NExprs})
					}
					if len(diffs) > 0 {
						c.Report(Violation{Desc: diffs[0], Grammar: text, Gen: core.Gen{OptGrammar: true, AltEntry: alt, BasicLatin: basicLatin}.String(), Input: string(in), InputHex: hexOf(in), Opts: optsString(&o1), Diffs: diffs}, "",
							&ConfCase{Text: text, Gen: core.Gen{OptGrammar: true, AltEntry: alt, BasicLatin: basicLatin}, HasState: true, HasMemo: true, Runs: []ConfRun{{Input: in, Opts: o2, Obs: rb}}})
					}
				}
			}
		}
	}
	altsFor := func(g *peg.Grammar) [][]string {
		out := [][]string{nil}
		if g.Rule("A") != nil {
			out = append(out, []string{"A"})
		}
		if g.Rule("A") != nil && g.Rule("B") != nil {
			out = append(out, []string{"A", "B"})
		}
		return out
	}
	mk := func(body *peg.Expr, ai, bi int) *peg.Grammar {
		g := &peg.Grammar{Rules: []*peg.Rule{{Name: "S", Expr: body.Clone()}}}
		refs := peg.RefsOf(body)
		for _, r := range refs {
			if r == "A" {
				g.Rules = append(g.Rules, &peg.Rule{Name: "A", Expr: leafRules[ai].Clone()})
			}
			if r == "B" {
				g.Rules = append(g.Rules, &peg.Rule{Name: "B", Expr: leafRules[bi].Clone()})
			}
		}
		return g
	}
	// cross family (cross.go): every construct next to every other (blocks, predicates, state, throw /
	// recover, rule calls to an action rule and to a terminal-only rule), unoptimized vs -optimize-grammar
	{
		saved := inputs
		inputs = crossInputsSmall
		noShard = true
		ok := runCross(c, &idx, &crossSpec{maxSize: 3, each: func(g *peg.Grammar, lr bool) {
			if lr {
				return // (left recursion: C08 / C10)
			}
			alts := [][]string{nil}
			if g.Rule("R") != nil {
				alts = append(alts, []string{"R"})
			}
			one(g, alts)
		}})
		noShard = false
		inputs = saved
		if !ok {
			return
		}
	}
	// a leaf rule referenced TWICE from a mid-level rule, one of the references inside a parenthesised
	// choice / sequence that the optimizer first has to flatten (the reference is reached a round
	// later than the other one), the mid-level rule referenced from a rule before or after it
	{
		lit := peg.Lit
		saved := inputs
		inputs = peg.Inputs([]string{"a", "c", "0", "!", "#"}, 3)
		leafs := []func() *peg.Expr{func() *peg.Expr { return peg.Cls(false, false, "a-c") }, func() *peg.Expr { return lit("a") }, func() *peg.Expr { return peg.Seq(lit("a"), lit("c")) }}
		mids := []func() *peg.Expr{
			func() *peg.Expr { return peg.Choice(peg.Seq(peg.Ref("L"), lit("!")), peg.Choice(peg.Ref("L"), lit("0"))) },
			func() *peg.Expr { return peg.Choice(peg.Choice(peg.Ref("L"), lit("0")), peg.Seq(peg.Ref("L"), lit("!"))) },
			func() *peg.Expr { return peg.Seq(peg.Ref("L"), peg.Seq(peg.Ref("L"), lit("0"))) },
			func() *peg.Expr { return peg.Choice(peg.Seq(lit("0"), peg.Seq(peg.Ref("L"), lit("!"))), peg.Ref("L")) },
			func() *peg.Expr { return peg.Seq(peg.Opt(peg.Choice(peg.Choice(lit("0"), peg.Ref("L")), lit("!"))), peg.Ref("L")) },
		}
		tops := []func() *peg.Expr{func() *peg.Expr { return peg.Choice(lit("#"), peg.Ref("M")) }, func() *peg.Expr { return peg.Seq(peg.Ref("M"), peg.Opt(peg.Ref("M"))) }}
		for _, lf := range leafs {
			for _, md := range mids {
				for _, tp := range tops {
					for order := 0; order < 3; order++ {
						if c.Expired("nested mid-level family") {
							return
						}
						rs := []*peg.Rule{{Name: "S", Expr: tp()}, {Name: "M", Expr: md()}, {Name: "L", Expr: lf()}}
						switch order {
						case 1:
							rs[1], rs[2] = rs[2], rs[1]
						case 2:
							rs = []*peg.Rule{rs[0], {Name: "V", Expr: peg.Choice(lit("#"), peg.Ref("M"))}, rs[1], rs[2]}
							rs[0] = &peg.Rule{Name: "S", Expr: peg.Seq(peg.Ref("V"), peg.Opt(peg.Ref("V")))}
						}
						one(&peg.Grammar{Rules: rs}, [][]string{nil})
					}
				}
			}
		}
		inputs = saved
	}
	// two-site family and same-name label family (shared with C01 / C02)
	{
		saved := inputs
		inputs = peg.Inputs([]string{"a", "b", "c"}, 3)
		for _, ga := range twoSiteFamily() {
			if c.Expired("two-site family") {
				return
			}
			one(ga.g, ga.alts)
		}
		for _, g := range sameNameLabelFamily() {
			if c.Expired("same-name label family") {
				return
			}
			one(g, [][]string{nil})
		}
		for _, g := range wideChoiceFamily() {
			if c.Expired("wide choice family") {
				return
			}
			one(g, [][]string{nil})
		}
		for _, g := range recoveryOptFamily() {
			if c.Expired("recovery family") {
				return
			}
			one(g, [][]string{nil, {"B"}})
		}
		// byte literal family: adjacent literals that are single bytes of multi-byte UTF-8 sequences
		// (written with \x escapes): concatenating them must not create a rune that none of them matches
		{
			bytesLits := []string{"\xe2", "\x82", "\xac", "\xc3", "\xa9", "a"}
			saved2 := inputs
			inputs = peg.Inputs([]string{"\xe2", "\x82", "\xac", "\xc3", "\xa9", "a"}, 3)
			allowInvalid = true
			for _, x := range bytesLits {
				for _, y := range bytesLits {
					if c.Expired("byte literal family") {
						return
					}
					one(&peg.Grammar{Rules: []*peg.Rule{{Name: "S", Expr: peg.Seq(peg.Lit(x), peg.Lit(y))}}}, [][]string{nil})
					for _, z := range bytesLits[:3] {
						one(&peg.Grammar{Rules: []*peg.Rule{{Name: "S", Expr: peg.Seq(peg.Lit(x), peg.Lit(y), peg.Lit(z), peg.Not(peg.Any()))}}}, [][]string{nil})
					}
				}
			}
			allowInvalid = false
			inputs = saved2
		}
		for _, g := range classMergeFamily(c.Thorough()) {
			if c.Expired("class merge family") {
				return
			}
			one(g, [][]string{nil})
			basicLatin = true
			one(g, [][]string{nil})
			basicLatin = false
		}
		for _, ga := range ruleGraphFamily(c.Thorough()) {
			if c.Expired("rule graph family") {
				return
			}
			one(ga.g, ga.alts)
		}
		inputs = saved
	}
	for size := 1; size <= n+1; size++ {
		for bi, body := range en.Size(size) {
			if size == n+1 && (slice == 0 || bi%slice != 0) {
				continue // thorough: a systematic 1/11 slice of the next size
			}
			if c.Expired("body size " + itoa(size)) {
				return
			}
			refs := peg.RefsOf(body)
			switch len(refs) {
			case 0:
				g := mk(body, 0, 0)
				one(g, altsFor(g))
			case 1:
				for k := range leafRules {
					g := mk(body, k, k)
					one(g, altsFor(g))
				}
			default:
				for k := range leafRules {
					g := mk(body, k, (k+3)%len(leafRules))
					one(g, altsFor(g))
				}
			}
			if size <= 3 {
				for pos := range peg.Nodes(body) {
					dec := peg.ReplaceNth(body, pos, func(x *peg.Expr) *peg.Expr { return peg.Action(0, peg.Label("y", x)) })
					g := mk(dec, 6, 3)
					one(g, altsFor(g)[:1])
				}
			}
		}
	}
}

type grammarAlts struct {
	g    *peg.Grammar
	alts [][]string
}

// twoSiteFamily: one leaf rule (class with range, class, literal ...) inlined
// at two places, each next to a DIFFERENT neighbour the optimizer merges it with.
func twoSiteFamily() []grammarAlts {
	lit := peg.Lit
	var out []grammarAlts
	leafs := []func() *peg.Expr{
		func() *peg.Expr { return peg.Cls(false, false, "a-b") }, func() *peg.Expr { return peg.Cls(false, false, "a", "b") }, func() *peg.Expr { return peg.Cls(false, false, "a") },
		func() *peg.Expr { return lit("a") }, func() *peg.Expr { return peg.Cls(false, true, "a-b") }, func() *peg.Expr { return lit("ab") }, func() *peg.Expr { return peg.Cls(true, false, "c") },
	}
	nbrs := []func() *peg.Expr{func() *peg.Expr { return lit("b") }, func() *peg.Expr { return lit("c") }, func() *peg.Expr { return peg.Cls(false, false, "c") }, func() *peg.Expr { return peg.LitI("c") }, func() *peg.Expr { return lit("bc") },
		// neighbours that bring RANGES of their own (with and without i): the merged class of each site has its own range table
		func() *peg.Expr { return peg.Cls(false, true, "b-c") }, func() *peg.Expr { return peg.Cls(false, true, "a-c") }, func() *peg.Expr { return peg.Cls(false, false, "b-c") }}
	for _, lf := range leafs {
		for xi, x := range nbrs {
			for yi, y := range nbrs {
				if xi == yi {
					continue
				}
				ch := func(n func() *peg.Expr, leafFirst bool) *peg.Expr {
					if leafFirst {
						return peg.Choice(peg.Ref("A"), n())
					}
					return peg.Choice(n(), peg.Ref("A"))
				}
				for _, lfirst := range []bool{true, false} {
					shapes := []*peg.Grammar{
						{Rules: []*peg.Rule{{Name: "S", Expr: peg.Seq(ch(x, lfirst), ch(y, lfirst))}, {Name: "A", Expr: lf()}}},
						{Rules: []*peg.Rule{{Name: "S", Expr: peg.Seq(peg.Plus(ch(x, lfirst)), peg.Lit("c"), peg.Star(ch(y, lfirst)))}, {Name: "A", Expr: lf()}}},
						{Rules: []*peg.Rule{{Name: "S", Expr: peg.Seq(peg.Ref("B"), peg.Lit("c"), peg.Ref("T"))}, {Name: "B", Expr: peg.Plus(ch(x, lfirst))}, {Name: "T", Expr: peg.Plus(ch(y, lfirst))}, {Name: "A", Expr: lf()}}},
						{Rules: []*peg.Rule{{Name: "S", Expr: peg.Choice(peg.Seq(peg.Ref("A"), x()), peg.Seq(peg.Ref("A"), y()))}, {Name: "A", Expr: lf()}}},
					}
					for _, g := range shapes {
						alts := [][]string{nil}
						if g.Rule("B") != nil {
							alts = append(alts, []string{"B", "T"}, []string{"A", "T"})
						} else {
							alts = append(alts, []string{"A"})
						}
						out = append(out, grammarAlts{g, alts})
					}
				}
			}
		}
	}
	return out
}

// classMergeFamily: (X1 / X2 [/ X3])+ for every ordered pair (thorough: triple) of
// mergeable terminals - classes with chars, overlapping ranges sharing a low or
// high bound, duplicates, ignore-case, inverted classes and one-rune literals,
// also behind a leaf rule.
func classMergeFamily(thorough bool) []*peg.Grammar {
	items := []func() *peg.Expr{
		func() *peg.Expr { return peg.Cls(false, false, "a") }, func() *peg.Expr { return peg.Cls(false, false, "a", "b") },
		func() *peg.Expr { return peg.Cls(false, false, "a-b") }, func() *peg.Expr { return peg.Cls(false, false, "a-c") },
		func() *peg.Expr { return peg.Cls(false, false, "b-c") }, func() *peg.Expr { return peg.Cls(false, false, "a-b", "a-c", "c") },
		func() *peg.Expr { return peg.Cls(true, false, "a") }, func() *peg.Expr { return peg.Cls(false, true, "a-b") },
		func() *peg.Expr { return peg.Lit("a") }, func() *peg.Expr { return peg.Lit("c") }, func() *peg.Expr { return peg.Ref("A") },
		func() *peg.Expr { return peg.Lit("") }, func() *peg.Expr { return peg.LitI("C") }, func() *peg.Expr { return peg.Lit("é") },
	}
	var out []*peg.Grammar
	mk := func(alts ...*peg.Expr) {
		ch := func() *peg.Expr {
			var cl []*peg.Expr
			for _, a := range alts {
				cl = append(cl, a.Clone())
			}
			return peg.Choice(cl...)
		}
		// (an alternative may be the empty literal: no repetition around the choice)
		out = append(out, &peg.Grammar{Rules: []*peg.Rule{{Name: "S", Expr: peg.Seq(ch(), ch(), peg.Opt(ch()), peg.Not(peg.Any()))}, {Name: "A", Expr: peg.Cls(false, false, "b-d")}}})
	}
	for _, x := range items {
		for _, y := range items {
			mk(x(), y())
			if thorough {
				for _, z := range items {
					mk(x(), y(), z())
				}
			}
		}
	}
	return out
}

// ruleGraphFamily: EVERY reference graph over the rules S, A, B, D in which a
// rule is a leaf ('a', [ab]), a chain "c" X, or a (non-left) recursive choice
// "a" X / "b": rules that are dead (unreachable from the first rule and from
// the alternate entrypoints) but refer to live ones, shared recursive rules,
// leaf rules inlined into rules that are removed, every set of alternate
// entrypoints among {A}, {D}, {A,B}.
func ruleGraphFamily(thorough bool) []grammarAlts {
	names := []string{"S", "A", "B", "D"}
	var bodies []func() *peg.Expr
	bodies = append(bodies, func() *peg.Expr { return peg.Lit("a") }, func() *peg.Expr { return peg.Cls(false, false, "a", "b") })
	for _, x := range names {
		x := x
		bodies = append(bodies, func() *peg.Expr { return peg.Choice(peg.Seq(peg.Lit("a"), peg.Ref(x)), peg.Lit("b")) })
		if x != "S" {
			bodies = append(bodies, func() *peg.Expr { return peg.Seq(peg.Lit("c"), peg.Ref(x)) })
		}
	}
	// the first rule always refers to something: "S <- X Y?" shapes
	var firsts []func() *peg.Expr
	for _, x := range names[1:] {
		x := x
		firsts = append(firsts, func() *peg.Expr { return peg.Seq(peg.Ref(x), peg.Opt(peg.Lit("c"))) })
		firsts = append(firsts, func() *peg.Expr { return peg.Choice(peg.Seq(peg.Lit("a"), peg.Ref(x), peg.Ref("S")), peg.Ref(x)) })
	}
	var out []grammarAlts
	n := 0
	for _, f := range firsts {
		for ai, a := range bodies {
			for bi, b := range bodies {
				for di, d := range bodies {
					n++
					if !thorough && n%3 != 0 && !(ai >= 2 && bi >= 2 && di < 2) {
						continue // quick: a systematic third, plus every graph with two non-leaf rules and a leaf
					}
					g := &peg.Grammar{Rules: []*peg.Rule{{Name: "S", Expr: f()}, {Name: "A", Expr: a()}, {Name: "B", Expr: b()}, {Name: "D", Expr: d()}}}
					out = append(out, grammarAlts{g, [][]string{nil, {"A"}, {"D"}, {"A", "B"}}})
				}
			}
		}
	}
	return out
}

// sameNameLabelFamily: a labelled leaf rule inlined next to equally named
// labels of the enclosing rule.
func sameNameLabelFamily() []*peg.Grammar {
	lit := peg.Lit
	var out []*peg.Grammar
	terms := []func() *peg.Expr{func() *peg.Expr { return lit("a") }, func() *peg.Expr { return peg.Cls(false, false, "a", "b") }, func() *peg.Expr { return lit("b") }}
	for _, t := range terms {
		for _, u := range terms {
			leafShape := 0
			leaf := func() *peg.Rule {
				inner := peg.Seq(peg.Label("x", u()), peg.Label("y", peg.Opt(lit("c"))))
				switch leafShape {
				case 1: // labels directly under a recovery operator (it opens no scope at run time)
					return &peg.Rule{Name: "L", Expr: peg.Action(0, peg.Recover(inner, peg.Label("x", lit("c")), "l"))}
				case 2: // no action of its own
					return &peg.Rule{Name: "L", Expr: peg.Seq(inner, peg.AndCode(0))}
				}
				return &peg.Rule{Name: "L", Expr: peg.Action(0, inner)}
			}
			for leafShape = 0; leafShape < 3; leafShape++ {
				for _, body := range []*peg.Expr{
					peg.Action(0, peg.Seq(peg.Label("x", t()), peg.Ref("L"), peg.Label("z", peg.Opt(lit("b"))))),
					peg.Action(0, peg.Seq(peg.Ref("L"), peg.Label("x", t()))),
					peg.Action(0, peg.Seq(peg.Label("x", t()), peg.Star(peg.Ref("L")), peg.Label("y", peg.Opt(lit("a"))))),
					peg.Action(0, peg.Seq(peg.Label("y", t()), peg.Ref("L"), peg.Ref("L"))),
					peg.Action(0, peg.Seq(peg.Label("x", t()), peg.Label("w", peg.Ref("L")), peg.AndCode(0))),
					peg.Choice(peg.Action(0, peg.Seq(peg.Label("x", t()), peg.Ref("L"), lit("c"))), peg.Action(0, peg.Seq(peg.Label("x", t()), peg.Ref("L")))),
				} {
					out = append(out, &peg.Grammar{Rules: []*peg.Rule{{Name: "S", Expr: body.Clone()}, leaf()}})
				}
			}
		}
	}
	return out
}

// optGrammarVsReference runs g, built with the given flag sets, on the inputs
// and compares success, flat value and action invocations with the reference.
func optGrammarVsReference(c *ShardCtx, g *peg.Grammar, gens []core.Gen, inputs [][]byte, what string) {
	peg.Renumber(g, 1)
	peg.AssignArgs(g)
	text := peg.Print(g, nil)
	c.Res.Grammars++
	for _, gen := range gens {
		b := buildOrCount(c, text, gen)
		if b == nil {
			continue
		}
		for _, in := range inputs {
			o := rtapi.RunOpts{MaxExpr: 600}
			obs := b.Run(in, &o, nil)
			ref := peg.Run(g, in, nil, core.RefOptions(&o, b.Flags))
			c.Res.Evaluations++
			if ref.Outcome != peg.OResult {
				c.Res.Skipped++
				continue
			}
			if ref.Matched {
				c.Res.Nontrivial++
			}
			var diffs []string
			switch {
			case obs.Diverged:
				diffs = append(diffs, "did not return")
			case failed(obs) == ref.Matched:
				diffs = append(diffs, fmt.Sprintf("match=%v, reference match=%v", !failed(obs), ref.Matched))
			default:
				if ref.Matched && obs.Flat != ref.Flat {
					diffs = append(diffs, fmt.Sprintf("flat value %q, reference %q", obs.Flat, ref.Flat))
				}
				if d := core.CompareLogs(ref.Log, obs.Log, actionKey); d != "" {
					diffs = append(diffs, d)
				}
			}
			if len(diffs) > 0 {
				c.Report(Violation{Desc: what + ": " + diffs[0], Grammar: text, Gen: gen.String(), Input: string(in), InputHex: hexOf(in), Opts: optsString(&o), Diffs: diffs}, "",
					&ConfCase{Text: text, Gen: gen, HasState: b.Flags.HasState(), HasMemo: b.Flags.HasMemo(), Runs: []ConfRun{{Input: in, Opts: o, Obs: obs}}})
			}
		}
	}
}

// recoveryOptFamily: leaf rules referenced inside and outside recovery
// operators and throws (the optimizer has to treat both sides of a recovery
// expression like any other expression).
func recoveryOptFamily() []*peg.Grammar {
	lit := peg.Lit
	var out []*peg.Grammar
	leafs := []func() *peg.Expr{func() *peg.Expr { return lit("b") }, func() *peg.Expr { return peg.Cls(false, false, "a", "b") }, func() *peg.Expr { return peg.Seq(lit("a"), lit("b")) }, func() *peg.Expr { return peg.Choice(lit("a"), peg.Throw("l")) }}
	for _, lf := range leafs {
		for _, body := range []*peg.Expr{
			peg.Seq(peg.Ref("B"), peg.Recover(peg.Ref("B"), peg.Ref("C"), "l")),
			peg.Recover(peg.Seq(peg.Ref("B"), peg.Throw("l")), peg.Ref("B"), "l"),
			peg.Recover(peg.Choice(peg.Seq(peg.Ref("B"), lit("c")), peg.Throw("l")), peg.Seq(peg.Ref("C"), peg.Ref("B")), "l"),
			peg.Seq(peg.Recover(peg.Ref("C"), peg.Ref("B"), "l"), peg.Opt(peg.Ref("B"))),
			peg.Star(peg.Recover(peg.Seq(peg.Ref("B"), peg.Ref("C")), lit("c"), "l", "m")),
			peg.Recover(peg.Recover(peg.Seq(lit("a"), peg.Throw("m")), peg.Ref("B"), "l"), peg.Ref("C"), "m"),
		} {
			out = append(out, &peg.Grammar{Rules: []*peg.Rule{{Name: "S", Expr: body.Clone()}, {Name: "B", Expr: lf()}, {Name: "C", Expr: peg.Choice(lit("c"), peg.Throw("l"))}}})
		}
	}
	// rules referenced ONLY from a recovery expression: directly, below an action, and referring
	// on to another rule that nothing else uses
	for _, rec := range []func() *peg.Expr{
		func() *peg.Expr { return peg.Ref("R") }, func() *peg.Expr { return peg.Action(0, peg.Ref("R")) }, func() *peg.Expr { return peg.Seq(peg.Opt(lit("c")), peg.Ref("R")) },
	} {
		for _, rbody := range []func() *peg.Expr{
			func() *peg.Expr { return peg.Plus(peg.Seq(peg.Not(peg.Ref("D")), peg.Any())) }, func() *peg.Expr { return peg.Seq(peg.Ref("D"), peg.Opt(lit("b"))) }, func() *peg.Expr { return peg.Cls(false, false, "a", "b") },
		} {
			out = append(out,
				&peg.Grammar{Rules: []*peg.Rule{{Name: "S", Expr: peg.Recover(peg.Plus(peg.Choice(lit("a"), peg.Throw("l"))), rec(), "l")}, {Name: "R", Expr: rbody()}, {Name: "D", Expr: lit("c")}, {Name: "B", Expr: lit("b")}}},
				&peg.Grammar{Rules: []*peg.Rule{{Name: "S", Expr: peg.Seq(peg.Ref("T"), peg.Opt(peg.Ref("B")))}, {Name: "T", Expr: peg.Recover(peg.Seq(lit("a"), peg.Choice(lit("a"), peg.Throw("l"))), rec(), "l")}, {Name: "R", Expr: rbody()}, {Name: "D", Expr: peg.Choice(lit("c"), lit("b"))}, {Name: "B", Expr: lit("b")}}},
			)
		}
	}
	return out
}

// wideChoiceFamily: choices of 4-5 alternatives in which a mergeable pair
// (one-rune literals / classes, also arising from an inlined leaf rule) sits
// at every position among unmergeable alternatives.
func wideChoiceFamily() []*peg.Grammar {
	lit := peg.Lit
	var out []*peg.Grammar
	merge := [][2]func() *peg.Expr{
		{func() *peg.Expr { return lit("a") }, func() *peg.Expr { return lit("b") }},
		{func() *peg.Expr { return peg.Cls(false, false, "a") }, func() *peg.Expr { return lit("b") }},
		{func() *peg.Expr { return peg.Ref("A") }, func() *peg.Expr { return peg.Cls(false, false, "b") }},
	}
	others := []func() *peg.Expr{
		func() *peg.Expr { return peg.Seq(lit("c"), lit("a")) }, func() *peg.Expr { return peg.Action(0, lit("c")) }, func() *peg.Expr { return peg.Ref("T") }, func() *peg.Expr { return lit("ca") },
	}
	for _, m := range merge {
		for pos := 0; pos <= 3; pos++ {
			for o1 := range others {
				for o2 := range others {
					for o3 := range others {
						if o1 == o2 || o2 == o3 {
							continue
						}
						alts := []*peg.Expr{others[o1](), others[o2](), others[o3]()}
						var all []*peg.Expr
						all = append(all, alts[:pos]...)
						all = append(all, m[0](), m[1]())
						all = append(all, alts[pos:]...)
						g := &peg.Grammar{Rules: []*peg.Rule{{Name: "S", Expr: peg.Plus(peg.Choice(all...))}, {Name: "A", Expr: lit("a")}, {Name: "T", Expr: peg.Seq(lit("c"), lit("b"))}}}
						out = append(out, g)
					}
				}
			}
		}
	}
	return out
}
