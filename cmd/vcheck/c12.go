package main

import (
	"fmt"
	"strings"

	"verif/engine/core"
	"verif/engine/peg"
	"verif/engine/rtapi"
)

func init() {
	register(&Check{
		ID: "C12", Level: "exploration", QuickSecs: 150, ThoroughSecs: 1200,
		Rule:        "grammars without blocks; a scanning-idiom family (the same terminal matching under ! at several increasing offsets: skip-until loops, keyword guards; 108 grammars, inputs over {a,b,newline} up to 5); a nested-call family (128 grammars: the nested call before and after the outer call recorded its farthest failure; whose predicate block - reporting no error - calls Parse of the same package on 4 other inputs before returning); a many-records family (choices of 19..45 distinct keyword literals failing at one offset - alone, every keyword twice, next to negated entries and EOF, retried by a repetition, two overlapping choices; 45 grammars); a terminal spelling family (20 terminals: literals of every quoting / escape form / i, classes with ranges, ^, i, escapes, Unicode classes, non-ASCII, the empty and the inverted empty class; alone, under !, in a choice, in a loop before !.); (2 generation flag sets; 4, adding -optimize-basic-latin, for grammars with classes) over terminals {'a',\"ab\",\"b\"i,[ab],[^a],.,\"\"} with !/& nesting up to depth 3, seq/choice, two-rune literals failing on the second rune, terminals starting at the same offset on different paths (N<=5 quick, 6 thorough); all inputs over {a,b,\\n,é} up to L=3 (4); for every NON-matching input the complete error (position line:col (offset) of the farthest failure and the sorted, de-duplicated expected list with !-prefixed entries and EOF last) is compared with the one derived from the reference interpreter's terminal-attempt list. Non-trivial = expected list has >= 2 entries or an inverted entry. Plus left-recursive rules (bodies over {E,'a','b',!.} x {!,&,?} up to 4 nodes x 3 definitions of E, -support-left-recursion; finding D32) and the cross family (cross.go, 8 flag sets without -optimize-grammar).",
		Assumptions: []string{"E1 loader", "reference failure tracking: failures under even predicate polarity, matches under odd polarity"},
		Run:         runC12,
	})
}

func runC12(c *ShardCtx) {
	nontriv := func(ref *peg.Result, obs *rtapi.Obs) bool {
		if ref.Matched || len(ref.Errs) != 1 {
			return false
		}
		e := ref.Errs[0]
		if len(e.Expected) >= 2 {
			return true
		}
		for _, x := range e.Expected {
			if strings.HasPrefix(x, "!") || x == "EOF" {
				return true
			}
		}
		return false
	}
	n, l := 5, 3
	if c.Thorough() {
		n, l = 6, 4
	}
	leaves := []*peg.Expr{peg.Lit("a"), peg.Lit("ab"), peg.LitI("b"), peg.Cls(false, false, "a", "b"), peg.Cls(true, false, "a"), peg.Any(), peg.Lit("")}
	en := peg.NewEnumerator(peg.Alphabet{Leaves: leaves, Unary: allUnary, Seq: true, Choice: true, MaxArity: 3})
	fam := &family{gens: gens2, inputs: peg.Inputs([]string{"a", "b", "\n", "é"}, l), opts: []rtapi.RunOpts{{MaxExpr: 600, Filename: "in.txt"}, {MaxExpr: 600}}, nontrivial: nontriv, confEvery: 97, confQuota: 1}
	idx := 0
	// terminal spelling family: how each terminal is NAMED in the expected list - literals of every
	// quoting / escape form / i (named by their quoted value), classes named by their source text
	// (ranges, ^, i, escapes, Unicode classes, non-ASCII), alone, under ! and next to another terminal
	{
		src := func(e *peg.Expr, s string) *peg.Expr { e.Src = s; return e }
		terms := []func() *peg.Expr{
			func() *peg.Expr { return src(peg.Lit("a"), "'a'") }, func() *peg.Expr { return src(peg.Lit("ab"), "`ab`") }, func() *peg.Expr { return src(peg.Lit("a"), `"\x61"`) },
			func() *peg.Expr { return src(peg.Lit("é"), `"\u00e9"`) }, func() *peg.Expr { return peg.Lit("\"q") }, func() *peg.Expr { return peg.Lit("\n\t\\") }, func() *peg.Expr { return peg.LitI("É") },
			func() *peg.Expr { return src(peg.LitI("A"), "'A'i") }, func() *peg.Expr { return src(peg.Lit("`"), "\"`\"") },
			func() *peg.Expr { return peg.Cls(false, false, "a-c") }, func() *peg.Expr { return peg.Cls(true, true, "a-c") }, func() *peg.Expr { return peg.Cls(false, false, "\n", "\t") },
			func() *peg.Expr { return peg.Cls(false, false, `\pL`) }, func() *peg.Expr { return peg.Cls(false, false, `\p{Nd}`, "x") }, func() *peg.Expr { return peg.Cls(false, false, "]") },
			func() *peg.Expr { return peg.Cls(false, false, "é-ü") }, func() *peg.Expr { return src(peg.Cls(false, false, "é"), `[\u00e9]`) }, func() *peg.Expr { return src(peg.Cls(false, false, "A-C"), `[\x41-\x43]`) },
			func() *peg.Expr { return peg.Cls(true, false) }, func() *peg.Expr { return peg.Cls(false, false) },
		}
		famT := *fam
		famT.gens = gens4
		famT.inputs = [][]byte{{}, []byte("z"), []byte("\n"), []byte("a"), []byte("é"), []byte("az"), []byte("B")}
		for _, t := range terms {
			for shape := 0; shape < 4; shape++ {
				idx++
				if !c.Mine(idx) {
					continue
				}
				var body *peg.Expr
				switch shape {
				case 0:
					body = t()
				case 1:
					body = peg.Seq(peg.Not(t()), peg.Lit("q"))
				case 2:
					body = peg.Choice(peg.Seq(t(), peg.Lit("#")), peg.Lit("q"), t())
				case 3:
					body = peg.Seq(peg.Star(t()), peg.Not(peg.Any()))
				}
				runGrammar(c, &peg.Grammar{Rules: []*peg.Rule{{Name: "S", Expr: body}}}, &famT)
			}
		}
	}
	// many records at one offset: choices of k distinct keyword literals (k around 20 and around 40:
	// the sizes at which a pre-sized buffer fills up once, twice), alone, with every keyword twice,
	// with negated entries and EOF among them, and retried by a repetition; the expected list must
	// name every one of them exactly once, in order
	{
		famW := *fam
		famW.inputs = [][]byte{{}, []byte("z"), []byte("kz"), []byte("k07"), []byte("k07z")}
		for _, k := range []int{19, 20, 21, 22, 25, 39, 40, 41, 45} {
			for shape := 0; shape < 5; shape++ {
				idx++
				if !c.Mine(idx) {
					continue
				}
				var alts []*peg.Expr
				for i := 0; i < k; i++ {
					// (names chosen so that the definition order is not the sorted order)
					alts = append(alts, peg.Lit(fmt.Sprintf("k%02d%c", (i*7)%k, 'a'+rune((i*5)%26))))
				}
				var body *peg.Expr
				switch shape {
				case 0:
					body = peg.Choice(alts...)
				case 1:
					var twice []*peg.Expr
					for _, a := range alts {
						twice = append(twice, a, peg.Seq(a.Clone(), peg.Lit("#")))
					}
					body = peg.Choice(twice...)
				case 2:
					body = peg.Choice(append(alts, peg.Seq(peg.Not(peg.Lit("y")), peg.Not(peg.Any()), peg.Lit("q")))...)
				case 3:
					body = peg.Seq(peg.Star(peg.Seq(peg.Choice(alts...), peg.Lit(";"))), peg.Not(peg.Any()))
				case 4:
					body = peg.Seq(peg.Opt(peg.Lit("k")), peg.Choice(peg.Seq(peg.Choice(alts...), peg.Lit("#")), peg.Seq(peg.Choice(alts[:k/2]...), peg.Lit("!"))))
				}
				runGrammar(c, &peg.Grammar{Rules: []*peg.Rule{{Name: "S", Expr: body}}}, &famW)
			}
		}
	}
	// classes with the SAME members written differently in one grammar (each is named by its own
	// source text): both failing at one offset, and at different offsets
	{
		src := func(e *peg.Expr, s string) *peg.Expr { e.Src = s; return e }
		pairs := [][2]func() *peg.Expr{
			{func() *peg.Expr { return src(peg.Cls(false, false, "_", "a-c"), "[_a-c]") }, func() *peg.Expr { return src(peg.Cls(false, false, "a-c", "_"), "[a-c_]") }},
			{func() *peg.Expr { return src(peg.Cls(false, false, "A"), "[A]") }, func() *peg.Expr { return src(peg.Cls(false, false, "A"), `[\x41]`) }},
			{func() *peg.Expr { return src(peg.Cls(false, false, `\pL`), `[\pL]`) }, func() *peg.Expr { return src(peg.Cls(false, false, `\p{L}`), `[\p{L}]`) }},
			{func() *peg.Expr { return src(peg.Cls(false, true, "a", "b"), "[ab]i") }, func() *peg.Expr { return src(peg.Cls(false, true, "b", "a"), "[ba]i") }},
			{func() *peg.Expr { return src(peg.Lit("a"), `"a"`) }, func() *peg.Expr { return src(peg.Lit("a"), `'a'`) }},
		}
		famP := *fam
		famP.gens = gens4
		famP.inputs = [][]byte{{}, []byte("#"), []byte("#a"), []byte("a#"), []byte("9"), []byte("_9"), []byte("A9"), []byte("é#")}
		for _, pr := range pairs {
			idx++
			if !c.Mine(idx) {
				continue
			}
			for _, body := range []*peg.Expr{
				peg.Choice(peg.Seq(pr[0](), peg.Lit("1")), peg.Seq(pr[1](), peg.Lit("2"))),
				peg.Seq(peg.Opt(peg.Lit("#")), pr[0](), pr[1](), peg.Lit("!")),
				peg.Seq(peg.Not(pr[0]()), peg.Any(), pr[1]()),
				peg.Choice(pr[1](), pr[0](), peg.Lit("#")),
			} {
				runGrammar(c, &peg.Grammar{Rules: []*peg.Rule{{Name: "S", Expr: body}}}, &famP)
			}
		}
	}
	// scanning idioms: the SAME terminal matches under ! at several increasing offsets (skip-until
	// loops, keyword guards), followed by every kind of ending
	{
		ts := []func() *peg.Expr{func() *peg.Expr { return peg.Lit("a") }, func() *peg.Expr { return peg.Lit("ab") }, func() *peg.Expr { return peg.Cls(false, false, "a") }}
		ends := []func() *peg.Expr{func() *peg.Expr { return peg.Lit("b") }, func() *peg.Expr { return peg.Not(peg.Any()) }, func() *peg.Expr { return peg.Lit("") }, func() *peg.Expr { return peg.Seq(peg.Lit("a"), peg.Lit("\n")) }}
		famS := *fam
		famS.inputs = peg.Inputs([]string{"a", "b", "\n"}, 5)
		for _, t := range ts {
			for _, t2 := range ts {
				for _, e := range ends {
					idx++
					if !c.Mine(idx) {
						continue
					}
					skip := func(x func() *peg.Expr) *peg.Expr { return peg.Star(peg.Seq(peg.Not(x()), peg.Any())) }
					for _, body := range []*peg.Expr{
						peg.Seq(skip(t), t(), skip(t2), e()),
						peg.Seq(peg.Plus(peg.Seq(peg.Not(t()), peg.Cls(false, false, "a", "b"), peg.Opt(peg.Lit("\n")))), e()),
						peg.Seq(peg.Not(t()), peg.Any(), peg.Not(t()), peg.Any(), peg.Not(t2()), e()),
					} {
						g := &peg.Grammar{Rules: []*peg.Rule{{Name: "S", Expr: body}}}
						f := famS
						if g.Has(peg.KClass) {
							f.gens = gens4
						}
						runGrammar(c, g, &f)
					}
				}
			}
		}
	}
	// nested calls: a predicate block (reporting no error) calls Parse of the same package on
	// another input before it returns (an include); the failure tracking of the outer call must
	// not see anything of the nested one
	{
		terms := []func() *peg.Expr{func() *peg.Expr { return peg.Lit("a") }, func() *peg.Expr { return peg.Lit("ab") }, func() *peg.Expr { return peg.Cls(false, false, "a", "b") }, func() *peg.Expr { return peg.Any() }}
		for _, t1 := range terms {
			for _, t2 := range terms {
				for _, t3 := range terms {
					idx++
					if !c.Mine(idx) {
						continue
					}
					for shape := 0; shape < 2; shape++ {
						g := &peg.Grammar{Rules: []*peg.Rule{{Name: "S", Expr: peg.Choice(peg.Seq(t1(), peg.AndCode(0), t2(), peg.Not(peg.Any())), peg.Seq(t3(), peg.Lit("b"), peg.Lit("b")))}}}
						if shape == 1 {
							// the nested call happens AFTER the outer call has recorded its farthest failure
							// (first alternative), in an alternative that fails earlier
							g = &peg.Grammar{Rules: []*peg.Rule{{Name: "S", Expr: peg.Choice(peg.Seq(t1(), t2(), peg.Lit("x")), peg.Seq(peg.AndCode(0), t3(), peg.Lit("y")), peg.Seq(peg.Lit("b"), peg.AndCode(0), peg.Lit("z")))}}}
						}
						peg.Renumber(g, 1)
						peg.AssignArgs(g)
						var scripts []map[int]*rtapi.Block
						for _, nin := range []string{"", "b", "abx", "aaaa"} {
							nin := nin
							s := map[int]*rtapi.Block{}
							for _, b := range g.Blocks() {
								s[b.ID] = &rtapi.Block{Pred: rtapi.PredTrue, Nested: &nin}
							}
							scripts = append(scripts, s)
						}
						f := *fam
						f.scripts = scripts
						f.confEvery = 7
						f.cmp.SkipLog = true // what the predicate block sees (position) is C02's subject
						runGrammar(c, g, &f)
					}
				}
			}
		}
	}
	// left-recursive rules (-support-left-recursion): the failures recorded inside every growth
	// iteration count - also those of iterations before the last, whose interior is answered from
	// the seed afterwards, and those of an operand that looked ahead further than it finally
	// consumed; the leader reached a second time at the same offset (under a predicate first, or
	// in a later alternative)
	{
		lit := peg.Lit
		type lrDef struct {
			rules  []*peg.Rule
			leader string
		}
		defs := []lrDef{
			{rules: []*peg.Rule{{Name: "E", Expr: peg.Choice(peg.Seq(peg.Ref("E"), lit("b"), peg.Ref("N")), peg.Ref("N"))}, {Name: "N", Expr: peg.Seq(lit("a"), peg.Opt(peg.Seq(lit("\n"), lit("a"))))}}},
			{rules: []*peg.Rule{{Name: "E", Expr: peg.Choice(peg.Seq(peg.Ref("E"), peg.Ref("N")), peg.Ref("N"))}, {Name: "N", Display: "an N", Expr: peg.Seq(peg.Cls(false, false, "a"), peg.Opt(peg.Seq(lit("b"), peg.Not(lit("b")))))}}},
			{rules: []*peg.Rule{{Name: "E", Expr: peg.Choice(peg.Seq(peg.Ref("F"), lit("b")), lit("a"))}, {Name: "F", Expr: peg.Choice(peg.Seq(peg.Ref("E"), lit("a"), lit("a")), peg.Ref("E"))}}, leader: "E"},
		}
		enL := peg.NewEnumerator(peg.Alphabet{Leaves: []*peg.Expr{peg.Ref("E"), lit("a"), lit("b"), peg.Not(peg.Any())}, Unary: []peg.Kind{peg.KNot, peg.KAnd, peg.KOpt}, Seq: true, Choice: true, MaxArity: 3})
		nl := 4
		if c.Thorough() {
			nl = 5
		}
		famL := *fam
		famL.gens = []core.Gen{{LeftRec: true}, {LeftRec: true, Optimize: true}}
		famL.inputs = peg.Inputs([]string{"a", "b", "\n"}, 4)
		famL.opts = []rtapi.RunOpts{{MaxExpr: 4000, Filename: "in.txt"}}
		famL.confEvery = 41
		for _, body := range enL.UpTo(nl) {
			if len(peg.RefsOf(body)) == 0 {
				continue
			}
			for _, d := range defs {
				idx++
				if !c.Mine(idx) {
					continue
				}
				if c.Expired("left-recursive family") {
					return
				}
				g := &peg.Grammar{Rules: append([]*peg.Rule{{Name: "S", Expr: body}}, d.rules...)}
				f := famL
				if d.leader != "" {
					ld := d.leader
					f.refOpts = func(o *peg.Options) { o.LeaderHeads = map[string]bool{ld: true} }
				}
				if g.Has(peg.KClass) {
					f.gens = append(append([]core.Gen{}, f.gens...), core.Gen{LeftRec: true, BasicLatin: true})
				}
				runGrammar(c, g.Clone(), &f)
			}
		}
	}
	// cross family (cross.go): every construct (blocks that report no error among them) under the
	// flag sets that leave the terminals as written (-optimize-grammar joins terminals)
	{
		var gens8 []core.Gen
		for _, gn := range gens16 {
			if !gn.OptGrammar {
				gens8 = append(gens8, gn)
			}
		}
		if !runCross(c, &idx, &crossSpec{maxSize: 3, gens: gens8, inputs: crossInputs, opts: []rtapi.RunOpts{{MaxExpr: 600, Filename: "in.txt"}}, scripts: crossPredScripts, nontrivial: nontriv,
			cmp: core.CmpOpts{SkipLog: true}}) {
			return
		}
	}
	// second family: two rules with display name, deeper predicate nesting
	en2 := peg.NewEnumerator(peg.Alphabet{Leaves: []*peg.Expr{peg.Lit("a"), peg.Any(), peg.Ref("A")}, Unary: []peg.Kind{peg.KNot, peg.KAnd, peg.KStar}, Seq: true, Choice: true})
	for _, body := range en2.UpTo(n) {
		if len(peg.RefsOf(body)) == 0 {
			continue
		}
		for _, ab := range []*peg.Expr{peg.Not(peg.Lit("b")), peg.Seq(peg.Lit("a"), peg.Not(peg.Any())), peg.Choice(peg.Lit("ab"), peg.Cls(false, false, "b"))} {
			idx++
			if !c.Mine(idx) {
				continue
			}
			if c.Expired("family 2") {
				return
			}
			g := &peg.Grammar{Rules: []*peg.Rule{{Name: "S", Expr: body}, {Name: "A", Display: "an A", Expr: ab}}}
			f := *fam
			if g.Has(peg.KClass) {
				f.gens = gens4
			}
			runGrammar(c, g, &f)
		}
	}
	// the main enumeration comes last: the small targeted families above always complete
	for size := 1; size <= n; size++ {
		for _, body := range en.Size(size) {
			idx++
			if !c.Mine(idx) {
				continue
			}
			if c.Expired("cut at body size " + itoa(size)) {
				return
			}
			// no wrapper: the property is about grammars without blocks
			g := &peg.Grammar{Rules: []*peg.Rule{{Name: "S", Expr: body}}}
			f := *fam
			if g.Has(peg.KClass) {
				f.gens = gens4 // classes have a second matching path under -optimize-basic-latin
			}
			runGrammar(c, g, &f)
		}
	}
}
