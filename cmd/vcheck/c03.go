package main

import (
	"encoding/json"
	"strings"
	"fmt"
	"strconv"

	"verif/engine/core"
	"verif/engine/hook"
	"verif/engine/peg"
)

func init() {
	register(&Check{
		ID: "C03", Level: "exploration", QuickSecs: 170, ThoroughSecs: 1500,
		Rule:        "AST side: all reference ASTs over every expression kind (literal, i-literal, class with range/escape/Unicode class/^/i, any, rule reference, & ! ? * +, label, action, &{} !{} #{}, throw, recovery with 1-2 labels, nested sequences and choices) up to N nodes per rule (quick 4, thorough 5), second rule with display name. Spelling side: 15 independent dimensions (4 definition operators; 13 rule separators incl. ';' on the same or a later line, comments, CRLF, EOF; 12 token separators incl. newline and comments of several shapes (/***/, /* x **/, /**/, //); leading blanks/comments; 8 separators between rule name, display name, definition operator and expression incl. none, newlines and comments; 3 literal quotings; 4 escape forms in literals and in classes; operator spacing; full parenthesisation; 8 code block bodies with nested braces, braces in string/raw string/rune literals and comments; with/without initializer). Chains: 2 and 3 recovery clauses on one expression, actions and throws inside them, a recovery inside a choice, labels on prefixed and suffixed primaries (all deviations). Lexical families: EVERY code block body of <= 3 (thorough 4) items from 28 atoms (strings, raw strings, rune literals and comments holding braces, quotes, backslashes and comment openers; identifiers, blanks, newlines) and nested groups; EVERY literal of <= 2 (3) pieces over plain runes and all escape forms in the three quotings, with and without i; EVERY class text of <= 3 (4) pieces over plain runes, - ^, escapes (incl. escaped hyphen and caret) and Unicode classes, denotation = the grammar's own tokenisation. Deviation bounded: canonical spelling for all ASTs, every single deviation for ASTs up to N-1 nodes, every pair for ASTs up to 2 nodes. Oracle: the AST dump of the real front-end (kinds, values, flags, class contents, labels, code text, AND line:col:offset of every node = position of its first token) must equal the AST the text was printed from; printing the parsed AST canonically and re-parsing yields the same AST. Non-trivial = a case with at least one spelling deviation or at least 3 nodes. Plus front-end histories: every text of an alphabet of 4 valid and 11 invalid grammars (unclosed groups up to 6 deep, unterminated block / string / class, bad escape) parsed first, then the whole alphabet in the same process: every answer equals the answer of a fresh process.",
		Assumptions: []string{"hook ast mode = ParseReader of the working tree", "position convention of C02 (line counts newlines, col counts runes since the last newline)"},
		Run:         runC03,
	})
}

// expectAST builds the dump the front-end must produce.
type expector struct {
	pt   *peg.PosTable
	o    *peg.PrintOpts
	text string
}

func (x *expector) pos(off int) [3]int { return x.pt.At(off) }

func (x *expector) grammar(g *peg.Grammar, init string, initOff int) *hook.Node {
	n := &hook.Node{K: "grammar", P: x.pos(0)}
	if init != "" {
		n.Code = &hook.Node{K: "code", P: x.pos(initOff), V: []byte(init)}
	}
	for _, r := range g.Rules {
		off := x.o.RulePos[r]
		rn := &hook.Node{K: "rule", P: x.pos(off), Name: &hook.Node{K: "ident", P: x.pos(off), V: []byte(r.Name)}}
		if r.Display != "" {
			rn.Display = &hook.Node{K: "string", P: x.pos(x.o.DispPos[r]), V: []byte(strconv.Quote(r.Display))}
		}
		rn.Kids = []*hook.Node{x.expr(r.Expr)}
		n.Kids = append(n.Kids, rn)
	}
	return n
}

var kindName = map[peg.Kind]string{peg.KLit: "lit", peg.KClass: "class", peg.KAny: "any", peg.KSeq: "seq", peg.KChoice: "choice", peg.KOpt: "opt", peg.KStar: "star", peg.KPlus: "plus",
	peg.KAnd: "and", peg.KNot: "not", peg.KLabel: "label", peg.KAction: "action", peg.KRef: "ref", peg.KAndCode: "andcode", peg.KNotCode: "notcode", peg.KState: "state", peg.KThrow: "throw", peg.KRecover: "recover"}

func (x *expector) expr(e *peg.Expr) *hook.Node {
	off := x.o.Pos[e]
	n := &hook.Node{K: kindName[e.K], P: x.pos(off)}
	for _, k := range e.Kids {
		n.Kids = append(n.Kids, x.expr(k))
	}
	code := func() {
		co := x.o.CodePos[e]
		end := co
		// the block text is what the printer wrote at CodePos: recover it from the text
		depthText := x.text[co:]
		_ = depthText
		n.Code = &hook.Node{K: "code", P: x.pos(co), V: []byte(peg.BlockText(e, x.o))}
		_ = end
	}
	switch e.K {
	case peg.KLit:
		n.V, n.I = []byte(e.Val), e.IgnoreCase
	case peg.KClass:
		n.V = []byte(peg.ClassText(e, x.o))
		n.I, n.Inv = e.Class.IgnoreCase, e.Class.Inverted
		for _, it := range e.Class.Items {
			switch {
			case it.Unicode != "":
				n.Classes = append(n.Classes, it.Unicode)
			case it.Lo == it.Hi:
				n.Chars = append(n.Chars, it.Lo)
			default:
				n.Ranges = append(n.Ranges, it.Lo, it.Hi)
			}
		}
	case peg.KRef:
		n.Name = &hook.Node{K: "ident", P: x.pos(off), V: []byte(e.Name)}
	case peg.KLabel:
		n.Name = &hook.Node{K: "ident", P: x.pos(off), V: []byte(e.Name)}
	case peg.KThrow:
		n.V = []byte(e.Name)
	case peg.KRecover:
		n.Labels = e.FailLabels
	case peg.KAction, peg.KAndCode, peg.KNotCode, peg.KState:
		code()
	}
	return n
}

// diffAST compares two dumps; withPos selects whether positions count.
func diffAST(want, got *hook.Node, withPos bool, path string) string {
	if want == nil || got == nil {
		if want != got {
			return fmt.Sprintf("%s: one side missing (want %v, got %v)", path, want != nil, got != nil)
		}
		return ""
	}
	if want.K != got.K {
		return fmt.Sprintf("%s: kind %s, want %s", path, got.K, want.K)
	}
	p := path + "/" + want.K
	if withPos && want.P != got.P {
		return fmt.Sprintf("%s: position %v, want %v", p, got.P, want.P)
	}
	if string(want.V) != string(got.V) {
		return fmt.Sprintf("%s: value %q, want %q", p, got.V, want.V)
	}
	if want.I != got.I || want.Inv != got.Inv {
		return fmt.Sprintf("%s: flags i=%v ^=%v, want i=%v ^=%v", p, got.I, got.Inv, want.I, want.Inv)
	}
	if fmt.Sprint(want.Chars) != fmt.Sprint(got.Chars) || fmt.Sprint(want.Ranges) != fmt.Sprint(got.Ranges) || fmt.Sprint(want.Classes) != fmt.Sprint(got.Classes) {
		return fmt.Sprintf("%s: class content chars=%q ranges=%q classes=%v, want %q %q %v", p, string(got.Chars), string(got.Ranges), got.Classes, string(want.Chars), string(want.Ranges), want.Classes)
	}
	if fmt.Sprint(want.Labels) != fmt.Sprint(got.Labels) {
		return fmt.Sprintf("%s: labels %v, want %v", p, got.Labels, want.Labels)
	}
	for _, pr := range [][2]*hook.Node{{want.Name, got.Name}, {want.Display, got.Display}, {want.Code, got.Code}} {
		if d := diffAST(pr[0], pr[1], withPos, p); d != "" {
			return d
		}
	}
	if len(want.Kids) != len(got.Kids) {
		return fmt.Sprintf("%s: %d children, want %d", p, len(got.Kids), len(want.Kids))
	}
	for i := range want.Kids {
		if d := diffAST(want.Kids[i], got.Kids[i], withPos, fmt.Sprintf("%s[%d]", p, i)); d != "" {
			return d
		}
	}
	return ""
}

// deviation is one non-default value of one spelling dimension.
type deviation struct {
	name  string
	apply func(o *peg.PrintOpts)
}

func strPtr(s string) *string { return &s }

func deviations() []deviation {
	var d []deviation
	for _, op := range []string{"=", "←", "⟵"} {
		op := op
		d = append(d, deviation{"defop " + op, func(o *peg.PrintOpts) { o.DefOp = op }})
	}
	for _, sep := range []string{";\n", " ;\n", "\n\n", " // c\n", " /* c */\n", ";", "\r\n", "\n// c\n", " ; // c\n", "\n;\n", " // c\n;\n", "\n\n ;", " /* c */\n\t; // d\n"} {
		sep := sep
		d = append(d, deviation{fmt.Sprintf("rulesep %q", sep), func(o *peg.PrintOpts) { o.RuleSep = sep }})
	}
	for _, ls := range []string{"", ";", " ", "\n\n ", " // end"} {
		ls := ls
		d = append(d, deviation{fmt.Sprintf("lastsep %q", ls), func(o *peg.PrintOpts) { o.LastSep = strPtr(ls) }})
	}
	for _, sp := range []string{"  ", "\t", "\n", " /* c */ ", "\r\n", "\n// c\n", " /*\n*/ ", " /***/ ", " /* x **/ ", " /**/ ", " /* a*b / c */ ", " /** d **/\n", " //\n", " // /* c\n"} {
		sp := sp
		d = append(d, deviation{fmt.Sprintf("space %q", sp), func(o *peg.PrintOpts) { o.Space = sp }})
	}
	for _, sp := range []string{" ", "\n", " /* c */ "} {
		sp := sp
		d = append(d, deviation{fmt.Sprintf("opspace %q", sp), func(o *peg.PrintOpts) { o.OpSpace = sp }})
	}
	// after the initializer block
	for _, sp := range []string{";\n", " ;\n\n", "\n;\n", ";", "\n", " // c\n", " ; // c\n"} {
		sp := sp
		d = append(d, deviation{fmt.Sprintf("initsep %q", sp), func(o *peg.PrintOpts) { o.InitSep = sp }})
	}
	// between rule name, display name, definition operator and expression
	for _, sp := range []string{"", "  ", "\t", "\n", " /* c */ ", " // c\n", "/**/", "\n\n// c\n\t"} {
		sp := sp
		d = append(d, deviation{fmt.Sprintf("headspace %q", sp), func(o *peg.PrintOpts) {
			o.HeadSpace = sp
			if sp == "" {
				o.HeadSpace = "\x00" // marker: no separator at all
			}
		}})
	}
	for _, ld := range []string{"\n\n", "  ", "// c\n", "/* c */", "\t\r\n"} {
		ld := ld
		d = append(d, deviation{fmt.Sprintf("lead %q", ld), func(o *peg.PrintOpts) { o.Lead = ld }})
	}
	d = append(d, deviation{"single quotes", func(o *peg.PrintOpts) { o.LitQuote = '\'' }}, deviation{"raw quotes", func(o *peg.PrintOpts) { o.LitQuote = '`' }})
	for f := 1; f <= 4; f++ {
		f := f
		d = append(d, deviation{fmt.Sprintf("literal escape form %d", f), func(o *peg.PrintOpts) { o.LitEsc = f }})
		d = append(d, deviation{fmt.Sprintf("class escape form %d", f), func(o *peg.PrintOpts) { o.ClsEsc = f }})
	}
	d = append(d, deviation{"all parens", func(o *peg.PrintOpts) { o.AllParen = true }})
	for cs := 1; cs < peg.NCodeStyles(); cs++ {
		cs := cs
		d = append(d, deviation{fmt.Sprintf("code style %d", cs), func(o *peg.PrintOpts) { o.CodeStyle = cs }})
	}
	d = append(d, deviation{"no initializer", func(o *peg.PrintOpts) { o.Package = "-" }})
	d = append(d, deviation{"initializer with braces", func(o *peg.PrintOpts) { o.InitCode = "{\npackage x\nvar s = \"}\" // {\nfunc f() { if true { } }\n}" }})
	return d
}

// frontEndHistories: the front-end is a function of the text alone. Every text of an alphabet of
// valid and INVALID grammars (unclosed groups 1..6 deep, unterminated code block / string / class,
// a bad escape, a stray operator) is parsed first in a process, then every text of the alphabet is
// parsed in that same process: each answer (AST dump with positions, or the error text) must be the
// answer a fresh process gives.
func frontEndHistories(c *ShardCtx) {
	texts := []string{
		"A <- 'a' (B / 'c')*\nB <- ('b' ('d' / 'e'))+\n",
		"A <- ((((((('a')))))))\n",
		"A \"the a\" <- x:('a' 'b') { return x, nil }\n",
		"A <- [a-c] 'x'i . !. &'a' %{l} //{l} 'r'\n",
		"A <- ('a'\n", "A <- (('a'\n", "A <- (((((('a'\n", "A <- ('a' / ('b' / ('c' / ('d' / ('e' / ('f'\n",
		"A <- 'a' { return nil, nil \n", "A <- \"abc\n", "A <- [abc\n", "A <- '\\q'\n", "A <- * 'a'\n", "A <- 'a' %{\n", "",
	}
	bin := core.HookBin()
	key := func(r *hook.Resp) string {
		if r.Err != "" {
			return "ERR " + r.Err
		}
		b, _ := json.Marshal(r.AST)
		return string(b)
	}
	call := func(s *hook.Server, t string) string {
		r, err := s.Call(&hook.Req{Mode: "ast", Text: []byte(t)})
		if err != nil {
			panic(&core.HarnessError{Msg: err.Error()})
		}
		return key(r)
	}
	alone := make([]string, len(texts))
	for i, t := range texts {
		s, err := hook.Start(bin)
		if err != nil {
			panic(&core.HarnessError{Msg: err.Error()})
		}
		alone[i] = call(s, t)
		s.Close()
	}
	for i := range texts {
		s, err := hook.Start(bin)
		if err != nil {
			panic(&core.HarnessError{Msg: err.Error()})
		}
		call(s, texts[i])
		for j := range texts {
			got := call(s, texts[j])
			c.Res.Evaluations++
			c.Res.Counters["front_end_history_calls"]++
			if got != alone[j] {
				c.Report(Violation{Desc: fmt.Sprintf("the front-end answers differently after other texts were parsed in the process (first %q, then the alphabet up to this text): got %s, a fresh process gives %s", texts[i], short(got, 200), short(alone[j], 200)), Grammar: texts[j]}, "")
			}
		}
		s.Close()
	}
}

func short(s string, n int) string {
	if len(s) > n {
		return s[:n] + "..."
	}
	return s
}

func runC03(c *ShardCtx) {
	if c.Shard == 0 {
		frontEndHistories(c)
	}
	n := 4
	if c.Thorough() {
		n = 5
	}
	leaves := []*peg.Expr{peg.Lit("a"), peg.LitI("ab"), peg.Lit("é\n\"\\"), peg.Cls(false, false, "a-c", "]", "x"), peg.Cls(true, true, "a", `\pL`, `\p{Latin}`), peg.Any(), peg.Ref("B"),
		peg.AndCode(1), peg.NotCode(2), peg.StateCode(3), peg.Throw("l")}
	// classes mixing escape forms (explicit spelling; content stated separately)
	mixed := func(src string, inv, ic bool, items ...string) *peg.Expr {
		e := peg.Cls(inv, ic, items...)
		e.Src = src
		return e
	}
	leaves = append(leaves,
		mixed("[\\x41\\nab]", false, false, "A", "\n", "a", "b"),
		mixed("[\\101\\tx-z]i", false, true, "A", "\t", "x-z"),
		mixed("[^\\u00e9\\\\\\]q\\U0001F600\\r_]", true, false, "é", "\\", "]", "q", "\U0001F600", "\r", "_"),
		mixed("[\\pL\\x30-\\x39\\n\\p{Nd}z]", false, false, "\\pL", "0-9", "\n", "\\p{Nd}", "z"))
	en := peg.NewEnumerator(peg.Alphabet{Leaves: leaves, Unary: allUnary, Seq: true, Choice: true, MaxArity: 3, NestSame: true, Recover: [][]string{{"l"}, {"l", "m"}}})
	devs := deviations()
	idx := 0
	check := func(g *peg.Grammar, ds []deviation, size int) {
		idx++
		if !c.Mine(idx) {
			return
		}
		o := &peg.PrintOpts{Pos: map[*peg.Expr]int{}, CodePos: map[*peg.Expr]int{}, RulePos: map[*peg.Rule]int{}, DispPos: map[*peg.Rule]int{}, InitPos: new(int)}
		names := ""
		for _, d := range ds {
			d.apply(o)
			names += d.name + "; "
		}
		text := peg.Print(g, o)
		c.Res.Evaluations++
		if len(ds) > 0 || size >= 3 {
			c.Res.Nontrivial++
		}
		r, err := c.W.Srv.Call(&hook.Req{Mode: "ast", Text: []byte(text)})
		if err != nil {
			panic(&core.HarnessError{Msg: err.Error()})
		}
		viol := func(desc string) {
			c.Report(Violation{Desc: desc, Grammar: text, Opts: names}, "")
		}
		if idx%997 == 1 {
			c.Sample(map[string]any{"text": text, "deviations": names})
		}
		if r.Hung || r.Panic != "" {
			viol("front-end hang/panic: " + r.Panic)
			return
		}
		if r.Err != "" {
			viol("documented syntax rejected: " + r.Err)
			return
		}
		x := &expector{pt: peg.NewPosTable([]byte(text)), o: o, text: text}
		init := ""
		if o.Package != "-" {
			init = o.InitCode
			if init == "" {
				init = "{\npackage vgram\n}"
			}
		}
		want := x.grammar(g, init, *o.InitPos)
		if d := diffAST(want, r.AST, true, ""); d != "" {
			viol("AST differs from the one the text denotes: " + d)
			return
		}
		// round trip: print the parsed AST canonically, re-parse, compare modulo positions
		g2, err := core.FromAST(r.AST)
		if err != nil {
			viol("cannot convert parsed AST: " + err.Error())
			return
		}
		text2 := peg.Print(g2, &peg.PrintOpts{Package: "-"})
		r2, err := c.W.Srv.Call(&hook.Req{Mode: "ast", Text: []byte(text2)})
		if err != nil {
			panic(&core.HarnessError{Msg: err.Error()})
		}
		if r2.Err != "" || r2.Panic != "" {
			viol("printed AST is rejected on re-parse: " + r2.Err + r2.Panic + "\n" + text2)
			return
		}
		a := *r.AST
		a.Code = nil // the canonical re-print has no initializer
		if d := diffAST(&a, r2.AST, false, ""); d != "" {
			viol("round trip changes the AST: " + d + "\nreprinted: " + text2)
		}
	}
	ruleB := func() *peg.Rule { return &peg.Rule{Name: "B", Display: "the B", Expr: peg.Lit("b")} }
	// code block lexer family: EVERY block body made of <= K items (quick 3, thorough 4) from
	// identifiers, blanks, newlines, string / raw string / rune literals holding braces, quotes,
	// backslashes and comment openers, comments holding braces and quotes, and nested { } groups,
	// used for the action of the first rule and the predicate of the second
	{
		k := 3
		if c.Thorough() {
			k = 4
		}
		for _, body := range codeBodies(k) {
			if c.Expired("code block lexer family") {
				return
			}
			body := body
			g := &peg.Grammar{Rules: []*peg.Rule{{Name: "A", Expr: peg.Action(7, peg.Lit("a"))}, {Name: "B", Expr: peg.Seq(peg.AndCode(1), peg.Lit("b"))}}}
			check(g, []deviation{{fmt.Sprintf("code body %q", body), func(o *peg.PrintOpts) { o.CodeBody = body }}}, 3)
		}
	}
	// literal spelling family: every literal made of <= K pieces (quick 2, thorough 3) - plain
	// runes, every single-character escape, octal / hex / short and long Unicode escapes - in the
	// quotings that can express them, with and without the i suffix, followed by another token
	{
		k := 2
		if c.Thorough() {
			k = 3
		}
		for _, ls := range literalSpellings(k) {
			if c.Expired("literal spelling family") {
				return
			}
			for _, ic := range []bool{false, true} {
				lit := peg.Lit(ls.val)
				lit.Src = ls.src
				lit.IgnoreCase = ic
				if ic {
					lit.Src += "i"
				}
				g := &peg.Grammar{Rules: []*peg.Rule{{Name: "A", Expr: peg.Seq(lit, peg.Lit("z"))}, ruleB()}}
				check(g, []deviation{{fmt.Sprintf("literal %s", lit.Src), func(o *peg.PrintOpts) {}}}, 3)
			}
		}
	}
	// chains the size bound of the main enumeration does not reach in the quick tier: two and three
	// recovery clauses on one expression (left-nested by the grammar), choices of actions inside
	// them, a label on a prefixed and suffixed primary
	{
		l := peg.Lit
		extras := []*peg.Expr{
			peg.Recover(peg.Recover(l("a"), l("b"), "l"), l("c"), "m"),
			peg.Recover(peg.Recover(peg.Recover(peg.Ref("B"), l("b"), "l"), l("c"), "m"), peg.Any(), "l", "m"),
			peg.Recover(peg.Recover(peg.Choice(peg.Action(7, l("a")), peg.Throw("l")), peg.Choice(l("b"), peg.Throw("m")), "l"), peg.Action(8, peg.Seq(l("c"), l("d"))), "m"),
			peg.Choice(peg.Recover(l("a"), l("b"), "l"), l("z")), // needs parentheses: recovery binds weaker than choice
			peg.Seq(peg.Label("x", peg.Not(peg.Star(l("a")))), peg.Label("y", peg.And(peg.Opt(peg.Cls(false, false, "a-c")))), peg.Plus(peg.Any())),
		}
		for _, body := range extras {
			if c.Expired("chain family") {
				return
			}
			mk := func() *peg.Grammar { return &peg.Grammar{Rules: []*peg.Rule{{Name: "A", Expr: body.Clone()}, ruleB()}} }
			check(mk(), nil, 5)
			for _, d := range devs {
				check(mk(), []deviation{d}, 5)
			}
		}
	}
	// class spelling family: every class text of <= K pieces (quick 3, thorough 4) from plain
	// runes, '-', '^', escapes of every form (incl. an ESCAPED hyphen and caret) and Unicode
	// classes, with and without i; denotation: the grammar's own tokenisation (a range is
	// ClassChar '-' ClassChar with a literal hyphen, tried first at every position)
	{
		k := 3
		if c.Thorough() {
			k = 4
		}
		// hyphen structure: every class text over {a, c, e, -, _} up to 6 (thorough 7) runes - runs of
		// ranges, hyphens after a range, at the start, at the end, doubled
		hy := classSpellingsOver([]string{"a", "c", "e", "-", "_"}, 6+map[bool]int{false: 0, true: 1}[c.Thorough()])
		for _, cs := range append(classSpellings(k), hy...) {
			if c.Expired("class spelling family") {
				return
			}
			if !cs.ok {
				continue
			}
			for _, ic := range []bool{false, true} {
				e := &peg.Expr{K: peg.KClass, Class: &peg.Class{Items: cs.items, Inverted: cs.inverted, IgnoreCase: ic}, Src: cs.src}
				if ic {
					e.Src += "i"
				}
				g := &peg.Grammar{Rules: []*peg.Rule{{Name: "A", Expr: peg.Seq(e, peg.Lit("z"))}, ruleB()}}
				check(g, []deviation{{fmt.Sprintf("class %s", e.Src), func(o *peg.PrintOpts) {}}}, 3)
			}
		}
	}
	// rule names that are Go predeclared identifiers or keywords (rule names are "valid identifiers";
	// only labels become Go parameter names): defined, referenced at the end of a rule body (where
	// the next rule's name follows), behind a label, in a choice
	for _, w := range []string{"string", "nil", "len", "error", "true", "int", "iota", "type", "func", "range", "go"} {
		for shape := 0; shape < 3; shape++ {
			var g *peg.Grammar
			switch shape {
			case 0:
				g = &peg.Grammar{Rules: []*peg.Rule{{Name: "A", Expr: peg.Seq(peg.Lit("a"), peg.Ref(w))}, {Name: w, Expr: peg.Lit("b")}}}
			case 1:
				g = &peg.Grammar{Rules: []*peg.Rule{{Name: w, Expr: peg.Choice(peg.Lit("b"), peg.Seq(peg.Lit("c"), peg.Ref(w)))}, {Name: "B", Display: "the B", Expr: peg.Label("x", peg.Ref(w))}}}
			case 2:
				g = &peg.Grammar{Rules: []*peg.Rule{{Name: "A", Expr: peg.Choice(peg.Ref(w), peg.Star(peg.Ref(w)))}, {Name: w, Expr: peg.Not(peg.Lit("b"))}}}
			}
			c.Res.Grammars++
			check(g, nil, 3)
			for _, d := range devs {
				if strings.HasPrefix(d.name, "rulesep") || strings.HasPrefix(d.name, "defop") {
					check(g, []deviation{d}, 3)
				}
			}
		}
	}
	for size := 1; size <= n; size++ {
		for _, body := range en.Size(size) {
			if c.Expired("AST size " + itoa(size)) {
				return
			}
			mk := func() *peg.Grammar {
				var e *peg.Expr = body.Clone()
				// actions and labels as decorations of the root keep the family small
				return &peg.Grammar{Rules: []*peg.Rule{{Name: "A", Expr: e}, ruleB()}}
			}
			c.Res.Grammars++
			check(mk(), nil, size)
			if size <= n-1 {
				for _, d := range devs {
					check(mk(), []deviation{d}, size)
				}
			}
			if size <= 2 {
				for i := range devs {
					for j := i + 1; j < len(devs); j++ {
						check(mk(), []deviation{devs[i], devs[j]}, size)
					}
				}
			}
			// label / action decorations at the root and on the first child
			if size <= n-1 {
				for _, dec := range []func(e *peg.Expr) *peg.Expr{
					func(e *peg.Expr) *peg.Expr { return peg.Action(7, e) },
					func(e *peg.Expr) *peg.Expr { return peg.Label("x", e) },
					func(e *peg.Expr) *peg.Expr {
						return peg.Action(7, peg.Seq(peg.Label("x", e), peg.Label("y", peg.Lit("z"))))
					},
					func(e *peg.Expr) *peg.Expr { return peg.Choice(peg.Action(7, e), peg.Action(8, peg.Lit("z"))) },
				} {
					if body.K == peg.KThrow {
						continue // x:%{l} is not in the syntax (a throw cannot be labelled)
					}
					g := &peg.Grammar{Rules: []*peg.Rule{{Name: "A", Expr: dec(body.Clone())}, ruleB()}}
					check(g, nil, size+1)
					for _, d := range devs {
						if size <= 2 {
							check(&peg.Grammar{Rules: []*peg.Rule{{Name: "A", Expr: dec(body.Clone())}, ruleB()}}, []deviation{d}, size+1)
						}
					}
				}
			}
		}
	}
}

// codeBodies enumerates block texts "{...}" of at most k items.
func codeBodies(k int) []string {
	atoms := []string{"x", " ", "\n", `"a"`, `"\\"`, `"\""`, `"{"`, `"}"`, `"'"`, `"//"`, `"/*"`, "`{`", "`}`", "`\\`", "`\"`", "`'\n`",
		`'{'`, `'}'`, `'\''`, `'\\'`, `'"'`, "// }\n", "// \"\n", "// {'\n", "//{\n", "//}\n", "/* } */", "/* \" */", "/* ' { */", "/*\n}*/"}
	var seqs func(n int) []string
	memo := map[int][]string{}
	seqs = func(n int) []string {
		if n == 0 {
			return []string{""}
		}
		if r, ok := memo[n]; ok {
			return r
		}
		var out []string
		for _, a := range atoms {
			for _, rest := range seqs(n - 1) {
				out = append(out, a+rest)
			}
		}
		// a nested group counts as one item plus its content
		for in := 0; in <= n-1; in++ {
			for _, inner := range seqs(in) {
				for _, rest := range seqs(n - 1 - in) {
					out = append(out, "{"+inner+"}"+rest)
				}
			}
		}
		memo[n] = out
		return out
	}
	var out []string
	for n := 0; n <= k; n++ {
		for _, s := range seqs(n) {
			out = append(out, "{"+s+"}")
		}
	}
	return out
}

type litSpelling struct{ src, val string }

// literalSpellings enumerates literal spellings of at most k pieces with the
// value each denotes (Go string literal semantics, piece by piece).
func literalSpellings(k int) []litSpelling {
	type piece struct{ src, val string }
	plain := []piece{{"a", "a"}, {"é", "é"}, {"\U0001F600"[0:0] + "😀", "😀"}, {" ", " "}, {"{", "{"}, {"]", "]"}, {"/", "/"}, {"i", "i"}}
	esc := []piece{{`\a`, "\a"}, {`\b`, "\b"}, {`\n`, "\n"}, {`\f`, "\f"}, {`\r`, "\r"}, {`\t`, "\t"}, {`\v`, "\v"}, {`\\`, "\\"},
		{`\101`, "A"}, {`\000`, "\x00"}, {`\x41`, "A"}, {`\x7F`, "\x7f"}, {`\u00e9`, "é"}, {`\u00E9`, "é"}, {`\U0001F600`, "😀"}, {`\uFFFD`, "\uFFFD"},
		{`\U0010FFFF`, "\U0010FFFF"}, {`\U0010ffff`, "\U0010FFFF"}, {`\uFFFF`, "\uFFFF"}, {`\U00010000`, "\U00010000"}, {`\u0001`, "\x01"}, {`\uD7FF`, "\uD7FF"}, {`\uE000`, "\uE000"}, {`\377`, "\xff"}, {`\xff`, "\xff"}}
	var out []litSpelling
	build := func(quote string, pieces []piece) {
		var rec func(n int, src, val string)
		rec = func(n int, src, val string) {
			out = append(out, litSpelling{quote + src + quote, val})
			if n == k {
				return
			}
			for _, p := range pieces {
				rec(n+1, src+p.src, val+p.val)
			}
		}
		rec(0, "", "")
	}
	dq := append(append([]piece{}, plain...), esc...)
	dq = append(dq, piece{`\"`, `"`}, piece{"'", "'"}, piece{"`", "`"})
	build(`"`, dq)
	raw := append(append([]piece{}, plain...), piece{`\`, `\`}, piece{`\n`, `\n`}, piece{`"`, `"`}, piece{"'", "'"}, piece{"\n", "\n"},
		piece{"\r", ""}, piece{"\r\n", "\n"}) // carriage returns inside raw strings are discarded (Go semantics)
	build("`", raw)
	// single quotes hold exactly one character
	sq := append(append([]piece{}, plain...), esc...)
	sq = append(sq, piece{`\'`, "'"}, piece{`"`, `"`}, piece{"`", "`"})
	for _, p := range sq {
		out = append(out, litSpelling{"'" + p.src + "'", p.val})
	}
	return out
}

type classSpelling struct {
	src      string
	items    []peg.ClassItem
	inverted bool
	ok       bool // false: the text contains a descending range (outside the documented syntax)
}

// classSpellingsOver enumerates the class texts over plain one-rune pieces.
func classSpellingsOver(runes []string, k int) []classSpelling {
	var out []classSpelling
	var rec func(n int, s []rune)
	rec = func(n int, s []rune) {
		if n >= 3 { // shorter texts are part of classSpellings
			cs := classSpelling{src: "[" + string(s) + "]", ok: true}
			for i := 0; i < len(s); {
				switch {
				case i+2 < len(s) && s[i+1] == '-':
					if s[i+2] <= s[i] {
						cs.ok = false
					}
					cs.items = append(cs.items, peg.ClassItem{Lo: s[i], Hi: s[i+2]})
					i += 3
				default:
					cs.items = append(cs.items, peg.ClassItem{Lo: s[i], Hi: s[i]})
					i++
				}
			}
			out = append(out, cs)
		}
		if n == k {
			return
		}
		for _, r := range runes {
			rec(n+1, append(append([]rune{}, s...), []rune(r)...))
		}
	}
	rec(0, nil)
	return out
}

// classSpellings enumerates class texts "[...]" of at most k pieces together
// with the class each denotes.
func classSpellings(k int) []classSpelling {
	type piece struct {
		src   string
		r     rune   // char pieces
		uni   string // Unicode class pieces
		plain bool   // written as itself (a plain '-' can be a range operator, a plain '^' the inversion mark)
	}
	pieces := []piece{{"a", 'a', "", true}, {"d", 'd', "", true}, {"-", '-', "", true}, {"^", '^', "", true}, {"é", 'é', "", true}, {`\t`, '\t', "", false}, {`\]`, ']', "", false},
		{`\\`, '\\', "", false}, {`\x2d`, '-', "", false}, {`\x5e`, '^', "", false}, {`\101`, 'A', "", false}, {`\u00e9`, 'é', "", false}, {`\U0010FFFF`, 0x10FFFF, "", false}, {`\uFFFF`, 0xFFFF, "", false}, {`\pL`, 0, "L", false}, {`\p{Nd}`, 0, "Nd", false}}
	var out []classSpelling
	var rec func(ps []piece)
	denote := func(ps []piece) classSpelling {
		cs := classSpelling{ok: true}
		for _, p := range ps {
			cs.src += p.src
		}
		cs.src = "[" + cs.src + "]"
		if len(ps) > 0 && ps[0].plain && ps[0].r == '^' {
			cs.inverted = true
			ps = ps[1:]
		}
		for i := 0; i < len(ps); {
			p := ps[i]
			switch {
			case p.uni != "":
				cs.items = append(cs.items, peg.ClassItem{Unicode: p.uni})
				i++
			case i+2 < len(ps) && ps[i+1].plain && ps[i+1].r == '-' && ps[i+2].uni == "":
				if ps[i+2].r <= p.r {
					cs.ok = false // descending or one-rune range
				}
				cs.items = append(cs.items, peg.ClassItem{Lo: p.r, Hi: ps[i+2].r})
				i += 3
			default:
				cs.items = append(cs.items, peg.ClassItem{Lo: p.r, Hi: p.r})
				i++
			}
		}
		return cs
	}
	rec = func(ps []piece) {
		out = append(out, denote(ps))
		if len(ps) == k {
			return
		}
		for _, p := range pieces {
			rec(append(append([]piece{}, ps...), p))
		}
	}
	rec(nil)
	return out
}
