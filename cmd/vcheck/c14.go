package main

import (
	"verif/engine/core"
	"verif/engine/peg"
	"verif/engine/rtapi"
)

func init() {
	register(&Check{
		ID: "C14", Level: "exploration", QuickSecs: 170, ThoroughSecs: 1500,
		Rule:        "all expressions over {'a','b',%{l},%{m},A} x {?,*,&,!} x seq/choice x recovery operators with label sets {l},{m},{l,m} (nested, side by side, throws inside guarded expressions, repetitions, predicates, later alternatives and inside recovery expressions; recovery expressions that succeed consuming or empty, fail, or throw again) up to N nodes (quick 5, thorough 6) containing at least one throw, rule A from {%{l}, 'a' %{l}, %{m} / 'a', 'a' //{l} 'b', ('a' %{l}) //{l} 'b', (%{m} / 'a' %{l}) //{l,m} 'b'?}; inputs over {a,b} up to L=3; 2 generation flag sets, and for bodies up to 3 (thorough 4) nodes that use A also -optimize-grammar (with and without -optimize-parser), where A is inlined. Oracle: reference interpreter with an explicit dynamic handler stack (pushed on entering the guarded expression, popped on leaving it; innermost handler listing the label first, falling through outwards when a recovery expression fails, plain failure if none succeeds, value of the recovery in place of the throw, parsing continues after it). Self-rethrowing handlers: both sides must not terminate normally. Non-trivial = a throw was caught by a handler (reference evaluated a recovery expression). Plus a two-recovery-operator family (one after the other, in two alternatives, nested in the guarded / in the recovery expression, in a loop, in two mutually recursive rules x label sets {l},{m},{l,m} x 6 guards x 3-4 recovery expressions), left-recursive rules that throw (finding D35) and the cross family (cross.go: every body with a throw or recovery operator, 16 flag sets).",
		Assumptions: []string{"E1 loader", "labels are not used in this family (scope of recovery blocks is discussed in DESIGN 4.C02)"},
		Run:         runC14,
	})
}

func runC14(c *ShardCtx) {
	n := 5
	if c.Thorough() {
		n = 6
	}
	leaves := []*peg.Expr{peg.Lit("a"), peg.Lit("b"), peg.Throw("l"), peg.Throw("m"), peg.Ref("A")}
	en := peg.NewEnumerator(peg.Alphabet{Leaves: leaves, Unary: []peg.Kind{peg.KOpt, peg.KStar, peg.KAnd, peg.KNot}, Seq: true, Choice: true, MaxArity: 2,
		Recover: [][]string{{"l"}, {"m"}, {"l", "m"}}})
	aRules := []*peg.Expr{peg.Throw("l"), peg.Seq(peg.Lit("a"), peg.Throw("l")), peg.Choice(peg.Throw("m"), peg.Lit("a")), peg.Recover(peg.Lit("a"), peg.Lit("b"), "l"),
		peg.Recover(peg.Seq(peg.Lit("a"), peg.Throw("l")), peg.Lit("b"), "l"), peg.Recover(peg.Choice(peg.Throw("m"), peg.Seq(peg.Lit("a"), peg.Throw("l"))), peg.Opt(peg.Lit("b")), "l", "m")}
	optMax := 3
	if c.Thorough() {
		optMax = 4
	}
	inputs := peg.Inputs([]string{"a", "b"}, 3)
	fam := &family{gens: gens2, inputs: inputs, opts: []rtapi.RunOpts{{MaxExpr: 800}}, confEvery: 293, confQuota: 1,
		nontrivial: func(ref *peg.Result, obs *rtapi.Obs) bool {
			return ref.Caught > 0
		},
		refOpts: func(o *peg.Options) { o.MaxEval = 4000 }}
	idx := 0
	// cross family (cross.go): every body with a throw or a recovery operator next to every other
	// construct, under every flag set
	if !runCross(c, &idx, &crossSpec{maxSize: 3, gens: gens16, inputs: crossInputsSmall, opts: []rtapi.RunOpts{{MaxExpr: 800}},
		keep: func(body *peg.Expr) bool {
			t := false
			body.Walk(func(e *peg.Expr) { t = t || e.K == peg.KThrow || e.K == peg.KRecover })
			return t
		}, scripts: crossPredScripts, nontrivial: fam.nontrivial, refOpts: fam.refOpts, cmp: core.CmpOpts{SkipNoMatch: true, EventKey: stateKey}}) {
		return
	}
	// left-recursive rules (-support-left-recursion) that throw: the same rule evaluated at the same
	// offset under DIFFERENT handlers (first alternative / second alternative, inside / outside a
	// recovery operator)
	{
		lit := peg.Lit
		lrA := []func() *peg.Expr{
			func() *peg.Expr { return peg.Choice(peg.Seq(peg.Ref("A"), lit("b")), peg.Seq(lit("a"), peg.Throw("l"))) },
			func() *peg.Expr { return peg.Choice(peg.Seq(peg.Ref("A"), lit("b"), peg.Throw("l")), lit("a")) },
			func() *peg.Expr { return peg.Choice(peg.Seq(peg.Ref("A"), peg.Choice(lit("b"), peg.Throw("m"))), peg.Seq(lit("a"), peg.Opt(peg.Throw("l")))) },
		}
		tops := []func() *peg.Expr{
			func() *peg.Expr { return peg.Choice(peg.Recover(peg.Ref("A"), lit("a"), "l"), peg.Recover(peg.Ref("A"), lit("b"), "l")) },
			func() *peg.Expr { return peg.Choice(peg.Seq(peg.Ref("A"), lit("a")), peg.Recover(peg.Ref("A"), lit("b"), "l", "m")) },
			func() *peg.Expr { return peg.Seq(peg.And(peg.Recover(peg.Ref("A"), lit(""), "l")), peg.Ref("A")) },
			func() *peg.Expr { return peg.Recover(peg.Seq(peg.Opt(peg.Seq(peg.Ref("A"), lit("a"))), peg.Ref("A")), peg.Star(lit("b")), "l") },
		}
		famLR := *fam
		famLR.gens = []core.Gen{{LeftRec: true}, {LeftRec: true, Optimize: true}}
		famLR.inputs = peg.Inputs([]string{"a", "b"}, 4)
		famLR.confEvery = 3
		for _, a := range lrA {
			for _, t := range tops {
				idx++
				if !c.Mine(idx) {
					continue
				}
				g := wrap(t(), &peg.Rule{Name: "A", Expr: a()})
				runGrammar(c, g, &famLR)
			}
		}
	}
	// many labels: 70 failure labels in one grammar, every one thrown under its own recovery operator
	// (inside two operators for other labels) and under none
	{
		idx++
		if c.Mine(idx) {
			const nl = 70
			var rules []*peg.Rule
			var eps []rtapi.RunOpts
			for i := 0; i < nl; i++ {
				li := "l" + itoa(i)
				body := peg.Recover(peg.Seq(peg.Lit("a"), peg.Choice(peg.Lit("a"), peg.Throw(li))), peg.Lit("r"), li)
				for k := 1; k <= 2 && i-k >= 0; k++ {
					body = peg.Recover(body, peg.Lit("q"), "m"+itoa((i+nl-k*5)%nl)) // (operators for other labels around it)
				}
				rules = append(rules, &peg.Rule{Name: "R" + itoa(i), Expr: body}, &peg.Rule{Name: "N" + itoa(i), Expr: peg.Seq(peg.Lit("a"), peg.Choice(peg.Lit("a"), peg.Throw(li)))})
				eps = append(eps, rtapi.RunOpts{MaxExpr: 800, Entrypoint: strp("R" + itoa(i))}, rtapi.RunOpts{MaxExpr: 800, Entrypoint: strp("N" + itoa(i))})
			}
			g := wrap(peg.Lit("z"), rules...)
			f := *fam
			f.opts = eps
			f.inputs = [][]byte{[]byte("ar"), []byte("aa"), []byte("aq"), []byte("a")}
			runGrammar(c, g, &f)
		}
	}
	// label spelling: two recovery operators whose label lists differ but look alike when written
	// next to each other ({a, b} / {a_b}, {a_, b} / {a, _b}, {ab} / {a, b}, non-ASCII and long names);
	// every label of both lists is thrown under either operator: recovered exactly when listed
	{
		lists := [][2][]string{
			{{"a", "b"}, {"a_b"}}, {{"a_b"}, {"a", "b"}}, {{"a_", "b"}, {"a", "_b"}}, {{"ab"}, {"a", "b"}}, {{"a", "b"}, {"b", "a"}},
			{{"\u00e9"}, {"e"}}, {{"x1", "x"}, {"x", "1x"}}, {{"a", "a_b", "b"}, {"a_a", "b_b"}},
		}
		for _, pr := range lists {
			idx++
			if !c.Mine(idx) {
				continue
			}
			seen := map[string]bool{}
			var all []string
			for _, l := range append(append([]string{}, pr[0]...), pr[1]...) {
				if !seen[l] && l != "1x" {
					seen[l] = true
					all = append(all, l)
				}
			}
			if len(all) > 5 {
				all = all[:5]
			}
			site := func() *peg.Expr {
				var alts []*peg.Expr
				for i, l := range all {
					alts = append(alts, peg.Seq(peg.Lit(string(rune('1'+i))), peg.Throw(l)))
				}
				return peg.Choice(alts...)
			}
			fix := func(ls []string) []string {
				var out []string
				for _, l := range ls {
					if l == "1x" {
						l = "x1x"
					}
					out = append(out, l)
				}
				return out
			}
			body := peg.Choice(peg.Recover(peg.Seq(peg.Lit("a"), site()), peg.Lit("r"), fix(pr[0])...), peg.Recover(peg.Seq(peg.Lit("b"), site()), peg.Lit("s"), fix(pr[1])...))
			f := *fam
			f.inputs = peg.Inputs([]string{"a", "b", "1", "2", "3", "4", "5", "r", "s"}, 3)
			runGrammar(c, wrap(body), &f)
		}
	}
	// two recovery operators in every arrangement (see twoRecoveryFamily)
	for _, g := range twoRecoveryFamily(c.Thorough()) {
		idx++
		if !c.Mine(idx) {
			continue
		}
		if c.Expired("two-operator family") {
			return
		}
		runGrammar(c, g, fam)
	}
	for size := 1; size <= n; size++ {
		for _, body := range en.Size(size) {
			g0 := &peg.Grammar{Rules: []*peg.Rule{{Name: "S", Expr: body}}}
			usesA := len(peg.RefsOf(body)) > 0
			if !g0.Has(peg.KThrow) && !usesA {
				continue
			}
			variants := []*peg.Expr{nil}
			if usesA {
				variants = aRules
			}
			for _, ar := range variants {
				idx++
				if !c.Mine(idx) {
					continue
				}
				if c.Expired("cut at body size " + itoa(size)) {
					return
				}
				g := wrap(body)
				if ar != nil {
					g.Rules = append(g.Rules, &peg.Rule{Name: "A", Expr: ar.Clone()})
				}
				runGrammar(c, g, fam)
				// the same through -optimize-grammar (rule A is inlined: a copy of its recovery
				// operators must handle the same labels)
				if ar != nil && size <= optMax {
					optGrammarVsReference(c, g, []core.Gen{{OptGrammar: true}, {OptGrammar: true, Optimize: true}}, inputs, "-optimize-grammar")
					c.Res.Grammars--
				}
			}
		}
	}
	_ = core.Gen{}
}

// twoRecoveryFamily: grammars with TWO recovery operators in every arrangement - one after the
// other, in two alternatives, nested in the guarded expression, nested in the recovery
// expression, in a loop, and in two mutually recursive rules (an operator re-entered through
// recursion while the other one is in force) - x every pair of label sets over {l, m} x guarded
// expressions that throw l or m at the start / after a terminal / not at all x recovery
// expressions that match, match empty, fail or throw again.
func twoRecoveryFamily(thorough bool) []*peg.Grammar {
	lit := peg.Lit
	labelSets := [][]string{{"l"}, {"m"}, {"l", "m"}}
	guards := []func() *peg.Expr{
		func() *peg.Expr { return lit("a") }, func() *peg.Expr { return peg.Throw("l") }, func() *peg.Expr { return peg.Throw("m") },
		func() *peg.Expr { return peg.Seq(lit("a"), peg.Throw("l")) }, func() *peg.Expr { return peg.Choice(lit("a"), peg.Throw("l")) }, func() *peg.Expr { return peg.Seq(lit("a"), peg.Choice(lit("a"), peg.Throw("m"))) },
	}
	recs := []func() *peg.Expr{func() *peg.Expr { return lit("b") }, func() *peg.Expr { return lit("") }, func() *peg.Expr { return peg.Throw("l") }, func() *peg.Expr { return peg.Any() }}
	if !thorough {
		recs = recs[:3]
	}
	var out []*peg.Grammar
	for _, la := range labelSets {
		for _, lb := range labelSets {
			for gi, ga := range guards {
				for gj, gb := range guards {
					for ri, ra := range recs {
						for rj, rb := range recs {
							if !thorough && (gi+gj+ri+rj)%2 == 1 && gi != gj {
								continue // quick: a systematic half of the mixed guard pairs
							}
							A := func() *peg.Expr { return peg.Recover(ga(), ra(), la...) }
							B := func() *peg.Expr { return peg.Recover(gb(), rb(), lb...) }
							out = append(out,
								wrap(peg.Seq(A(), B())),
								wrap(peg.Choice(peg.Seq(A(), lit("q")), B())),
								wrap(peg.Recover(peg.Seq(ga(), B()), ra(), la...)),
								wrap(peg.Recover(ga(), peg.Seq(B(), lit("b")), la...)),
								wrap(peg.Star(peg.Choice(peg.Seq(A(), lit("b")), B()))),
								// two rules, each with its operator, calling each other (re-entry through recursion)
								wrap(peg.Ref("A"), &peg.Rule{Name: "A", Expr: peg.Recover(peg.Choice(peg.Seq(lit("a"), peg.Ref("B")), ga()), ra(), la...)}, &peg.Rule{Name: "B", Expr: peg.Recover(peg.Choice(peg.Seq(lit("b"), peg.Ref("A")), gb()), rb(), lb...)}),
							)
						}
					}
				}
			}
		}
	}
	return out
}
