package main

import (
	"fmt"
	"sort"
	"strings"

	"verif/engine/core"
	"verif/engine/peg"
	"verif/engine/rtapi"
)

// Standard generation flag sets.
var (
	gensPlain = []core.Gen{{}}
	gens4     = []core.Gen{{}, {Optimize: true}, {BasicLatin: true}, {Optimize: true, BasicLatin: true}}
	gens2     = []core.Gen{{}, {Optimize: true}}
)

func optsString(o *rtapi.RunOpts) string {
	var p []string
	if o.Entrypoint != nil {
		p = append(p, fmt.Sprintf("Entrypoint(%q)", *o.Entrypoint))
	}
	if o.Memoize {
		p = append(p, "Memoize")
	}
	if o.Debug {
		p = append(p, "Debug")
	}
	if o.UseReader {
		p = append(p, "via ParseReader")
	}
	if o.StatsPreload > 0 {
		p = append(p, fmt.Sprintf("Statistics(&Stats{ExprCnt: %d})", o.StatsPreload))
	} else if o.Statistics {
		p = append(p, "Statistics")
	}
	if o.MaxExpr > 0 {
		p = append(p, fmt.Sprintf("MaxExpressions(%d)", o.MaxExpr))
	}
	if o.NoRecover {
		p = append(p, "Recover(false)")
	}
	if o.AllowInvalid {
		p = append(p, "AllowInvalidUTF8")
	}
	if o.InitState {
		p = append(p, "InitState")
	}
	if o.Shadowed {
		p = append(p, "every option preceded by its opposite")
	}
	if o.Doubled {
		p = append(p, "every option given twice")
	}
	if o.Filename != "" {
		p = append(p, "file="+o.Filename)
	}
	return strings.Join(p, ",")
}

func scriptString(s map[int]*rtapi.Block) string {
	if len(s) == 0 {
		return ""
	}
	ids := make([]int, 0, len(s))
	for k := range s {
		ids = append(ids, k)
	}
	sort.Ints(ids)
	var p []string
	for _, id := range ids {
		b := s[id]
		nested := ""
		if b.Nested != nil {
			nested = fmt.Sprintf(" nested-Parse(%q)", *b.Nested)
		}
		p = append(p, fmt.Sprintf("%d:{pred=%d err=%q panic=%d ops=%d ret=%d%s}", id, b.Pred, b.Err, b.Panic, b.Ops, b.Ret, nested))
	}
	return strings.Join(p, " ")
}

// family is a set of cases sharing inputs/options.
type family struct {
	gens    []core.Gen
	inputs  [][]byte
	opts    []rtapi.RunOpts
	scripts []map[int]*rtapi.Block
	cmp     core.CmpOpts
	// nontrivial decides whether a case counts as non-trivial.
	nontrivial func(ref *peg.Result, obs *rtapi.Obs) bool
	// extra is an additional oracle on the observation.
	extra func(g *peg.Grammar, b *core.Built, in []byte, o *rtapi.RunOpts, ref *peg.Result, obs *rtapi.Obs) []string
	// refOpts lets a check adjust the reference options.
	refOpts func(o *peg.Options)
	// confEvery: every confEvery-th grammar of this shard is also replayed
	// on a really compiled parser (at most confQuota per shard).
	confEvery, confQuota int
}

// buildOrCount builds the grammar; it returns nil when the tool rejected it
// or something is wrong with the emitted code (counted, reported elsewhere).
func buildOrCount(c *ShardCtx, text string, gen core.Gen) *core.Built {
	b, err := c.W.Build(text, gen)
	if err != nil {
		panic(err)
	}
	if b.Panic != "" {
		c.Res.Counters["tool_panic"]++
		if c.Res.ToolPanic == "" {
			c.Res.ToolPanic = fmt.Sprintf("%s on grammar %q with flags %s", b.Panic, oneLine(text), gen.String())
		}
		return nil
	}
	if b.Err != "" {
		c.Res.Rejected++
		return nil
	}
	if b.VariantBroken {
		c.Res.Counters["runtime_variant_does_not_compile"]++
		return nil
	}
	if len(b.Problems) > 0 || b.Prefix == nil {
		c.Res.Counters["emitted_code_problem"]++
		if len(c.Res.ProblemCases) < 2 {
			why := "emitted code could not be loaded"
			if len(b.Problems) > 0 {
				why = b.Problems[0]
			}
			c.Res.ProblemCases = append(c.Res.ProblemCases, ConfCase{Text: strings.Replace(text, "package vgram", "package PKG", 1), Why: "c04:" + loaderProblem + why, Gen: core.Gen{AltEntry: gen.Argv()}})
		}
		if len(b.Problems) > 0 && len(c.Res.Counters) < 40 {
			c.Res.Counters["problem: "+b.Problems[0]]++
		}
		return nil
	}
	return b
}

// runGrammar runs all cases of the family on one grammar against the reference.
// warmKey is what two calls of the same Parse are compared on.
func warmKey(o *rtapi.Obs) string {
	return fmt.Sprintf("val=%s errs=%v panic=%q exprs=%d diverged=%v", o.Val, msgs(o), o.Panic, o.ExprCnt, o.Diverged)
}

// quirkRefs caches the reference results under defect models for the grammar being run (the
// result does not depend on the generation flags beyond what its key holds).
var quirkRefs map[string]*peg.Result

func runGrammar(c *ShardCtx, g *peg.Grammar, f *family) {
	quirkRefs = map[string]*peg.Result{}
	text := peg.Print(g, nil)
	c.Res.Grammars++
	scripts := f.scripts
	if len(scripts) == 0 {
		scripts = []map[int]*rtapi.Block{nil}
	}
	type refKey struct {
		in, opt, script int
		hasState, optG  bool
		leftRec         bool
	}
	refs := map[refKey]*peg.Result{}
	var inlined map[string]bool
	c.Res.confSeen++
	confGen := -1
	if f.confEvery > 0 && c.Res.confSeen%f.confEvery == 1 && len(c.Res.Conf) < f.confQuota {
		confGen = len(c.Res.Conf) % len(f.gens)
	}
	for gi, gen := range f.gens {
		b := buildOrCount(c, text, gen)
		if b == nil {
			continue
		}
		var conf *ConfCase
		if gi == confGen {
			conf = &ConfCase{Text: text, Gen: gen, HasState: b.Flags.HasState(), HasMemo: b.Flags.HasMemo(), Why: "systematic sample"}
		}
		for ii, in := range f.inputs {
			pt := peg.NewPosTable(in)
			for oi := range f.opts {
				o := f.opts[oi]
				if (o.Memoize || o.Debug || o.Statistics) && !b.Flags.HasMemo() {
					continue
				}
				for si, script := range scripts {
					k := refKey{ii, oi, si, b.Flags.HasState(), gen.OptGrammar, b.Flags.LeftRecursion}
					ro := core.RefOptions(&o, b.Flags)
					if gen.OptGrammar {
						if inlined == nil {
							inlined = peg.InlinableRules(g)
						}
						ro.Inlined = inlined
					}
					if f.refOpts != nil {
						f.refOpts(&ro)
					}
					ref := refs[k]
					if ref == nil {
						ref = peg.Run(g, in, script, ro)
						refs[k] = ref
					}
					oo := o
					obs := b.Run(in, &oo, script)
					c.Res.Evaluations++
					if conf != nil && !obs.Diverged && len(conf.Runs) < 40 {
						conf.Runs = append(conf.Runs, ConfRun{Input: in, Opts: oo, Script: script, Obs: obs})
					}
					// a second call in the same process (no cold start in between) returns the same:
					// every 5th case, and never for runs that did not return
					c.Res.warmSeen++
					if c.Res.warmSeen%20 == 3 && len(in) > 0 && !obs.Diverged && len(obs.Pool) == 0 {
						// ... and the call returns the same after a call on an INCOMPLETE version of its
						// input (the input without its last byte; every 4th time the empty input): what a
						// parse leaves behind at its end of input must not answer for a longer one
						pre := in[:len(in)-1]
						if c.Res.warmSeen%80 == 3 {
							pre = nil
						}
						o2, o3 := o, o
						first := b.Run(pre, &o2, script)
						if !first.Diverged {
							again := b.RunWarm(in, &o3, script)
							c.Res.Counters["second_call_runs"]++
							if k1, k2 := warmKey(obs), warmKey(again); k1 != k2 && !again.Diverged {
								c.Report(Violation{Desc: fmt.Sprintf("a Parse call made after a call on the shorter input %q returns something else: %s (alone: %s)", pre, k2, k1), Grammar: text, Gen: gen.String(), Input: string(in),
									InputHex: hexOf(in), Opts: optsString(&o) + " " + scriptString(script) + fmt.Sprintf(" (after Parse(%q) with the same options)", pre)}, "")
							}
						}
					}
					if c.Res.warmSeen%20 == 13 && !obs.Diverged && len(obs.Pool) == 0 {
						// ... and after a call with OTHER options that is cut short: the same input parsed
						// with a tiny budget, Recover(false), AllowInvalidUTF8, Memoize and every option given
						// twice (the budget panic escapes and is caught here); nothing of that call - an
						// option, a flag toggled half way, a table - may reach the next one
						pre := rtapi.RunOpts{MaxExpr: uint64(3 + c.Res.warmSeen%7), NoRecover: true, AllowInvalid: !o.AllowInvalid, Memoize: b.Flags.HasMemo() && !o.Memoize, Doubled: true, Filename: o.Filename}
						first := b.Run(in, &pre, script)
						if !first.Diverged {
							o3 := o
							again := b.RunWarm(in, &o3, script)
							c.Res.Counters["second_call_runs"]++
							if k1, k2 := warmKey(obs), warmKey(again); k1 != k2 && !again.Diverged {
								c.Report(Violation{Desc: fmt.Sprintf("a Parse call made after a call with other options (%s) returns something else: %s (alone: %s)", optsString(&pre), k2, k1), Grammar: text, Gen: gen.String(), Input: string(in),
									InputHex: hexOf(in), Opts: optsString(&o) + " " + scriptString(script) + " (after Parse of the same input with " + optsString(&pre) + ")"}, "")
							}
						}
					}
					if c.Res.warmSeen%5 == 0 && !obs.Diverged && len(obs.Pool) == 0 {
						if c.Res.warmSeen%10 == 0 && len(f.inputs) > 1 {
							// ... and a call on ANOTHER input with the same option VALUES (a caller keeping
							// opts := []Option{...} for a corpus) returns what that input returns alone
							in2 := f.inputs[(ii+1)%len(f.inputs)]
							o2, o3 := o, o
							warm := b.RunWarmReuse(in2, &o2, script)
							alone := b.Run(in2, &o3, script)
							c.Res.Counters["second_call_runs"]++
							if k1, k2 := warmKey(alone), warmKey(warm); k1 != k2 && !alone.Diverged && !warm.Diverged {
								c.Report(Violation{Desc: fmt.Sprintf("a Parse call made after a call on the input %q with the same option values returns something else: %s (alone: %s)", in, k2, k1), Grammar: text, Gen: gen.String(), Input: string(in2),
									InputHex: hexOf(in2), Opts: optsString(&o) + " " + scriptString(script) + " (option values of the previous call passed again)"}, "")
							}
						} else {
							o2 := o
							obs2 := b.RunWarm(in, &o2, script)
							c.Res.Counters["second_call_runs"]++
							if k1, k2 := warmKey(obs), warmKey(obs2); k1 != k2 {
								c.Report(Violation{Desc: "a second identical Parse call in the same process returns something else: " + k2 + " (first call: " + k1 + ")", Grammar: text, Gen: gen.String(), Input: string(in),
									InputHex: hexOf(in), Opts: optsString(&o) + " " + scriptString(script) + " (called twice)"}, "")
							}
						}
					}
					co := f.cmp
					co.MaxExpr = o.MaxExpr
					diffs, skipped := core.Compare(ref, obs, pt, o.Filename, co)
					if skipped {
						c.Res.Skipped++
						continue
					}
					if f.extra != nil {
						diffs = append(diffs, f.extra(g, b, in, &oo, ref, obs)...)
					}
					if f.nontrivial == nil || f.nontrivial(ref, obs) {
						c.Res.Nontrivial++
					}
					c.Res.Counters["outcome_"+ref.Outcome]++
					if ref.Matched {
						c.Res.Counters["matched"]++
					}
					if ii == len(f.inputs)/2 && oi == 0 && si == 0 {
						c.Sample(map[string]any{"grammar": oneLine(text), "gen": gen.String(), "input": string(in), "value": obs.Val, "errors": len(obs.Errs)})
					}
					if len(diffs) == 0 {
						continue
					}
					// an extra oracle may attribute its only diff to a known finding:
					// "@quirk:<name>|<message>"
					tagged := ""
					if len(diffs) == 1 && strings.HasPrefix(diffs[0], quirkTag) {
						rest := strings.TrimPrefix(diffs[0], quirkTag)
						if i := strings.Index(rest, "|"); i >= 0 {
							name := rest[:i]
							diffs[0] = rest[i+1:]
							for _, q := range c.Quirks() {
								if q == name {
									tagged = q
								}
							}
						}
					}
					v := Violation{Desc: diffs[0], Grammar: text, Gen: gen.String(), Input: string(in), InputHex: hexOf(in), Opts: optsString(&o) + " " + scriptString(script), Diffs: diffs}
					if tagged != "" {
						c.Report(v, tagged)
						continue
					}
					var vc *ConfCase
					if !obs.Diverged {
						vc = &ConfCase{Text: text, Gen: gen, HasState: b.Flags.HasState(), HasMemo: b.Flags.HasMemo(), Runs: []ConfRun{{Input: in, Opts: oo, Script: script, Obs: obs}}}
					}
					c.Report(v, explainByQuirk(c, g, in, script, ro, obs, pt, o.Filename, co, f, b, &oo, fmt.Sprint(k)), vc)
				}
			}
		}
		if conf != nil && len(conf.Runs) > 0 {
			c.Res.Conf = append(c.Res.Conf, *conf)
		}
	}
}

// explainByQuirk re-runs the reference with the model of each listed known
// finding switched on (singly, then all together); if the observation then
// agrees completely the violation is exactly that known finding.
func explainByQuirk(c *ShardCtx, g *peg.Grammar, in []byte, script map[int]*rtapi.Block, ro peg.Options, obs *rtapi.Obs, pt *peg.PosTable, filename string, co core.CmpOpts, f *family, b *core.Built, o *rtapi.RunOpts, cacheKey string) string {
	var quirks []string
	for _, q := range c.Quirks() {
		// a finding is only considered where its cause is present
		if q == peg.QLitFFFDEOF && !hasFFFDLit(g) {
			continue
		}
		if q == peg.QMemo && (o == nil || !o.Memoize) {
			continue // (the table model speaks about runs with Memoize only)
		}
		quirks = append(quirks, q)
	}
	try := func(qs []string) bool {
		r2 := ro
		r2.Quirks = map[string]bool{}
		co := co
		for _, q := range qs {
			r2.Quirks[q] = true
			if q == peg.QLitFFFDEOF {
				// the bogus match at EOF also advances the column counter
				co.LooseEOFCol, co.InputLen = true, len(in)
			}
		}
		ck := cacheKey + fmt.Sprint(qs, ro.LeftRec, ro.Inlined != nil)
		ref := quirkRefs[ck]
		if ref == nil || cacheKey == "" {
			ref = peg.Run(g, in, script, r2)
			if cacheKey != "" {
				quirkRefs[ck] = ref
			}
		}
		d, skipped := core.Compare(ref, obs, pt, filename, co)
		if skipped {
			return false
		}
		if f.extra != nil {
			d = append(d, f.extra(g, b, in, o, ref, obs)...)
		}
		return len(d) == 0
	}
	for _, q := range quirks {
		if try([]string{q}) {
			return q
		}
	}
	if len(quirks) > 1 && try(quirks) {
		return quirks[0]
	}
	return ""
}

// wrap puts the body under the standard top rule S <- v:(body) { probe }.
func wrap(body *peg.Expr, rest ...*peg.Rule) *peg.Grammar {
	g := &peg.Grammar{Rules: []*peg.Rule{{Name: "S", Expr: peg.Action(100, peg.Label("v", body), "v")}}}
	g.Rules = append(g.Rules, rest...)
	return g
}

func strp(s string) *string { return &s }

func hasFFFDLit(g *peg.Grammar) bool {
	found := false
	for _, r := range g.Rules {
		r.Expr.Walk(func(e *peg.Expr) {
			if e.K == peg.KLit && strings.ContainsRune(e.Val, 0xFFFD) {
				found = true
			}
		})
	}
	return found
}

// hcall is one Parse call of a history.
type hcall struct {
	in     string
	o      rtapi.RunOpts
	script map[int]*rtapi.Block
	note   string
}

// historyPairs runs EVERY ordered pair of the calls in one process (the first after a cold
// start, the second right after it) and requires the second call to return exactly what it
// returns as the first call of a process.
func historyPairs(c *ShardCtx, b *core.Built, text string, gen core.Gen, calls []hcall) {
	key := func(o *rtapi.Obs) string {
		return fmt.Sprintf("val=%s errs=%v panic=%q diverged=%v", o.Val, msgs(o), o.Panic, o.Diverged)
	}
	desc := func(cl hcall) string {
		return fmt.Sprintf("Parse(%q, %s%s)", cl.in, optsString(&cl.o), cl.note)
	}
	solo := make([]string, len(calls))
	for i, cl := range calls {
		o := cl.o
		solo[i] = key(b.Run([]byte(cl.in), &o, cl.script))
	}
	for i := range calls {
		for j := range calls {
			oi, oj := calls[i].o, calls[j].o
			b.Run([]byte(calls[i].in), &oi, calls[i].script)
			got := key(b.RunWarm([]byte(calls[j].in), &oj, calls[j].script))
			c.Res.Evaluations++
			c.Res.Nontrivial++
			c.Res.Counters["history_pairs"]++
			if got != solo[j] {
				c.Report(Violation{Desc: fmt.Sprintf("%s after %s returns %s; as the first call of a process it returns %s", desc(calls[j]), desc(calls[i]), got, solo[j]),
					Grammar: text, Gen: gen.String(), Input: calls[j].in, InputHex: hexOf([]byte(calls[j].in)), Opts: desc(calls[j]) + " after " + desc(calls[i])}, "")
			}
		}
	}
}

// historyFamily: what an ABORTED call leaves behind. One action block `("a" {..})` is placed inside
// every kind of enclosing construct (the operand of ! and &, a repetition, a choice alternative that
// fails afterwards, a label, the guarded side and the recovery side of a recovery operator, a
// called rule, behind a state block, inside a left-recursive rule when the flag set has
// -support-left-recursion); calls = inputs x {no fault, the block returns an error, panics with an
// error, panics with a string} x {Recover on, off}; EVERY ordered pair of calls runs in one
// process and the second call must return exactly what it returns as the first call of a process
// (value, complete error list incl. the expected set, escaped panic).
func historyFamily(c *ShardCtx, idx *int, gens []core.Gen) {
	lit := peg.Lit
	inner := func() *peg.Expr { return peg.Action(0, lit("a")) }
	type hctx struct {
		name  string
		body  func() *peg.Expr
		rules func() []*peg.Rule
		lr    bool
	}
	ctxs := []hctx{
		{"!", func() *peg.Expr { return peg.Not(peg.Seq(inner(), lit("b"))) }, nil, false},
		{"&", func() *peg.Expr { return peg.And(inner()) }, nil, false},
		{"*", func() *peg.Expr { return peg.Star(inner()) }, nil, false},
		{"alt", func() *peg.Expr { return peg.Choice(peg.Seq(inner(), lit("b")), lit("a")) }, nil, false},
		{"label", func() *peg.Expr { return peg.Label("x", inner()) }, nil, false},
		{"guarded", func() *peg.Expr { return peg.Recover(peg.Seq(inner(), peg.Throw("l")), lit("b"), "l") }, nil, false},
		{"recovery", func() *peg.Expr { return peg.Recover(peg.Seq(peg.Opt(lit("b")), peg.Throw("l")), inner(), "l") }, nil, false},
		{"rule", func() *peg.Expr { return peg.Not(peg.Not(peg.Ref("A"))) }, func() []*peg.Rule { return []*peg.Rule{{Name: "A", Display: "the A", Expr: inner()}} }, false},
		{"state", func() *peg.Expr { return peg.Opt(peg.Seq(peg.StateCode(0), inner(), lit("b"))) }, nil, false},
		{"leftrec", func() *peg.Expr { return peg.Not(peg.Seq(peg.Ref("E"), lit("b"))) }, func() []*peg.Rule {
			return []*peg.Rule{{Name: "E", Expr: peg.Choice(peg.Seq(peg.Ref("E"), inner()), lit("b"), inner())}}
		}, true},
	}
	inputs := []string{"", "a", "ab", "b", "ba", "aab", "c"}
	for _, cx := range ctxs {
		for _, gen := range gens {
			if cx.lr != gen.LeftRec {
				continue
			}
			*idx++
			if !c.Mine(*idx) {
				continue
			}
			if c.Expired("history family") {
				return
			}
			g := &peg.Grammar{Rules: []*peg.Rule{{Name: "S", Display: "start", Expr: peg.Action(0, peg.Seq(peg.Label("v", peg.Seq(cx.body(), peg.Star(peg.Choice(lit("a"), lit("b"))))), peg.Not(peg.Any())))}}}
			if cx.rules != nil {
				g.Rules = append(g.Rules, cx.rules()...)
			}
			peg.Renumber(g, 1)
			peg.AssignArgs(g)
			text := peg.Print(g, nil)
			b := buildOrCount(c, text, gen)
			if b == nil {
				continue
			}
			c.Res.Grammars++
			// the inner block is the action over the literal "a" (not the top action)
			innerID := 0
			for _, blk := range g.Blocks() {
				if blk.K == peg.KAction && blk.ID != g.Rules[0].Expr.ID {
					innerID = blk.ID
				}
			}
			mk := func(f func(*rtapi.Block)) map[int]*rtapi.Block {
				s := map[int]*rtapi.Block{}
				for _, blk := range g.Blocks() {
					s[blk.ID] = &rtapi.Block{Pred: rtapi.PredTrue}
					if blk.K == peg.KState {
						s[blk.ID].Ops = rtapi.OpShallow
					}
				}
				if f != nil {
					f(s[innerID])
				}
				return s
			}
			scripts := []struct {
				s    map[int]*rtapi.Block
				note string
			}{
				{mk(nil), ""},
				{mk(func(b *rtapi.Block) { b.Err = "e1" }), ", the block returns an error"},
				{mk(func(b *rtapi.Block) { b.Err, b.Panic = "boom", 1 }), ", the block panics with an error"},
				{mk(func(b *rtapi.Block) { b.Err, b.Panic = "boom", 2 }), ", the block panics with a string"},
			}
			var calls []hcall
			for _, in := range inputs {
				for _, o := range []rtapi.RunOpts{{MaxExpr: 600}, {MaxExpr: 600, NoRecover: true}} {
					for _, sc := range scripts {
						calls = append(calls, hcall{in, o, sc.s, sc.note})
					}
				}
			}
			historyPairs(c, b, text+" (block inside: "+cx.name+")", gen, calls)
		}
	}
}
