package main

import (
	"fmt"
	"strings"

	"verif/engine/core"
	"verif/engine/peg"
	"verif/engine/rtapi"
)

func init() {
	register(&Check{
		ID: "C06", Level: "exploration", QuickSecs: 150, ThoroughSecs: 1200,
		Rule:        "(F1) all block-free bodies over {'a','b',\"ab\",\"\",[ab],[^a],.} x {?,*,+,&,!} x seq/choice up to N nodes (quick 4, thorough 5); (F2) every single label+action decoration for N<=3; (F3) forced revisits: a rule R (every body up to 4 nodes, every single label placement, with a rule-level action, an always-failing action error, or a label-dependent predicate; for bodies up to 3 (4) nodes also INLINE: the block parenthesised behind the variable-width prefix \"a\"* - thorough also [ab]? - so that the rule starts at two offsets but the block at one) reached at one offset along two paths by the templates {R 'b' / R, &R R, R 'b' / . r:R {act}, R / . R, (R 'b' / R)*}. (F7) every revisit template followed by a tail that looks at the current rune (!. . &. [^a] \"b\" \"\u00e9\"?), inputs over {a,b,\u00e9}; (F6) twins: the same labelled group (6 shapes) written twice in one grammar - under two actions of one choice, in two rules, under a lookahead and for real, inside a labelled group and alone - reached at one offset along two paths, inputs over {a,b,c}; (F5) every ordered pair of 9 terminals with the same text but different flags or kinds ('a', 'a'i, 'A'i, [a], [a]i, [^a], \"ab\", \"ab\"i, .) tried at the same offsets, inputs over {a,A,b,x}; (F4) left-recursive grammars generated with -support-left-recursion (direct, two-level tower, indirect pairs with both name orders entered through either rule, a non-recursive rule with an action called inside a discarded growth attempt and again afterwards; each also with every action returning an error). Inputs over {a,b} up to L=3 (4). All 8 combinations of Memoize, Debug, Statistics: success/failure, value and code-block errors must equal the default-option run (which itself is compared with the reference); with Memoize every (block, start offset) is invoked at most once, a census hook at the entry of parseExpr shows that no (expression node, offset) pair is evaluated twice (labeled expressions excepted) and Stats.ExprCnt <= (#expressions of the emitted grammar) x (len+1). Non-trivial = under Memoize at least one memo hit changed the number of block invocations or evaluated expressions. Plus the cross family (cross.go: every body without #{} / throw / recover, with and without -optimize-basic-latin and left recursion, predicates true / false, every action returning an error) and the option-value reuse oracle (every 4th (input, option set): the NEXT input parsed with the SAME option values must equal that input alone).",
		Assumptions: []string{"E1 loader", "blocks are pure functions of text, pos and their labels by construction"},
		Run:         runC06,
	})
}

func scriptErrs(o *rtapi.Obs) []string {
	var out []string
	for _, e := range o.Errs {
		if e.InnerKind == "script" {
			out = append(out, e.Msg)
		}
	}
	return out
}

func failed(o *rtapi.Obs) bool {
	// a failed match returns nil and an error
	return !o.ErrNil && o.Val == "nil"
}

func runC06(c *ShardCtx) {
	n, l := 4, 3
	if c.Thorough() {
		n, l = 5, 4
	}
	inputs := peg.Inputs([]string{"a", "b"}, l)
	var combos []rtapi.RunOpts
	for m := 1; m < 8; m++ {
		combos = append(combos, rtapi.RunOpts{Memoize: m&1 != 0, Debug: m&2 != 0, Statistics: m&4 != 0})
	}
	quirks := map[string]string{}
	for _, f := range c.Findings {
		quirks[f.Quirk] = f.ID
	}
	idx := 0
	reuseSeen := 0
	gen := core.Gen{}
	var leaders map[string]bool // indirect cycles: the leader grows the seed (see C08)
	var runAll func(g *peg.Grammar, script map[int]*rtapi.Block)
	run := func(g *peg.Grammar, script map[int]*rtapi.Block) {
		idx++
		if !c.Mine(idx) {
			return
		}
		runAll(g, script)
	}
	runAll = func(g *peg.Grammar, script map[int]*rtapi.Block) {
		text := peg.Print(g, nil)
		c.Res.Grammars++
		b := buildOrCount(c, text, gen)
		if b == nil {
			return
		}
		for ii, in := range inputs {
			o0 := rtapi.RunOpts{MaxExpr: 3000}
			base := b.Run(in, &o0, script)
			ro0 := core.RefOptions(&o0, b.Flags)
			ro0.LeaderHeads = leaders
			ref := peg.Run(g, in, script, ro0)
			c.Res.Evaluations++
			if base.Diverged || ref.Outcome != peg.OResult {
				c.Res.Skipped++
				continue
			}
			if d, skipped := core.Compare(ref, base, peg.NewPosTable(in), "", core.CmpOpts{SkipLog: true, MaxExpr: 3000}); !skipped && len(d) > 0 {
				c.Report(Violation{Desc: "default options vs reference: " + d[0], Grammar: text, Gen: "-", Input: string(in), InputHex: hexOf(in), Opts: scriptString(script), Diffs: d}, "")
				continue
			}
			for _, cb := range combos {
				o := cb
				o.MaxExpr = 3000
				o.Statistics = o.Statistics || o.Memoize // to read ExprCnt
				o.TrackEvals = o.Memoize && !b.Flags.LeftRecursion
				obs := b.Run(in, &o, script)
				c.Res.Evaluations++
				var diffs []string
				// the option VALUES of this call passed again to a call on the next input (a caller who
				// keeps opts := []Option{Memoize(true), ...} for a corpus): same result as that input alone
				reuseSeen++
				if reuseSeen%4 == 0 && !obs.Diverged {
					in2 := inputs[(ii+1)%len(inputs)]
					o2, o3 := o, o
					warm := b.RunWarmReuse(in2, &o2, script)
					alone := b.Run(in2, &o3, script)
					c.Res.Counters["option_values_reused_runs"]++
					if k1, k2 := warmKey(alone), warmKey(warm); k1 != k2 && !alone.Diverged && !warm.Diverged {
						c.Report(Violation{Desc: fmt.Sprintf("a Parse call made after a call on the input %q with the same option values returns something else: %s (alone: %s)", in, k2, k1), Grammar: text, Gen: gen.String(), Input: string(in2),
							InputHex: hexOf(in2), Opts: optsString(&o) + " " + scriptString(script) + " (option values of the previous call passed again)"}, "")
					}
				}
				if obs.Diverged {
					diffs = append(diffs, "did not return (tick cap)")
				} else if failed(obs) != failed(base) || obs.Val != base.Val || strings.Join(scriptErrs(obs), "|") != strings.Join(scriptErrs(base), "|") || obs.Panic != base.Panic {
					diffs = append(diffs, fmt.Sprintf("result differs from default options: %s %v vs %s %v", obs.Val, msgs(obs), base.Val, msgs(base)))
				}
				if o.Memoize && !obs.Diverged && !b.Flags.LeftRecursion { // growth iterations legitimately re-evaluate a left-recursive rule at its offset
					seen := map[string]bool{}
					for _, e := range obs.Log {
						k := fmt.Sprintf("%d@%d", e.ID, e.Pos[2])
						if e.Kind != rtapi.KAction {
							continue // position seen by predicates is stale (D14); offset unknown
						}
						if seen[k] {
							diffs = append(diffs, "Memoize: block "+k+" invoked twice at the same offset")
						}
						seen[k] = true
					}
					// census: no (expression, offset) pair is evaluated twice (labeled expressions
					// excepted: they bind in the scope they run in and are never answered from the table)
					if obs.EvalRepeat != "" {
						diffs = append(diffs, "Memoize: evaluated twice: "+obs.EvalRepeat)
					}
					if obs.EvalCalls > 0 {
						c.Res.Counters["census_runs"]++
					}
					bound := uint64(b.NExprs+len(g.Rules)) * uint64(len(in)+1)
					if obs.ExprCnt > bound {
						diffs = append(diffs, fmt.Sprintf("Memoize: %d expressions evaluated, bound %d x %d", obs.ExprCnt, b.NExprs+len(g.Rules), len(in)+1))
					}
					if len(obs.Log) != len(base.Log) || obs.ExprCnt < base.ExprCnt {
						c.Res.Nontrivial++
					}
				}
				if cb.Memoize && cb.Debug && cb.Statistics && len(in) == 2 {
					c.Sample(map[string]any{"grammar": oneLine(text), "input": string(in), "opts": optsString(&o), "value": obs.Val, "exprs": obs.ExprCnt, "default_value": base.Val})
				}
				if len(diffs) == 0 {
					continue
				}
				known := ""
				// the defect models explain DIFFERENT RESULTS (incl. not returning) only; repeated evaluations or an exceeded
				// bound are never attributed to them
				onlyResult := true
				for _, d := range diffs {
					if !strings.HasPrefix(d, "result differs") && !strings.HasPrefix(d, "did not return") {
						onlyResult = false
					}
				}
				if o.Memoize && len(quirks) > 0 && onlyResult {
					ro := core.RefOptions(&o, b.Flags)
					ro.Quirks = map[string]bool{peg.QMemo: true}
					rm := peg.Run(g, in, script, ro)
					if d, sk := core.Compare(rm, obs, peg.NewPosTable(in), "", core.CmpOpts{SkipLog: true, SkipNoMatch: true}); !sk && len(d) == 0 {
						// exactly the packrat table keyed by (node, offset): a code block
						// whose result depends on labels bound before its start offset
						known = "memo-label-dependent"
						if b.Flags.LeftRecursion {
							// the same table in a parser with left-recursion support: what it ignores
							// there is the roll-back of the error list after a discarded growth attempt
							known = "memo-lr-rollback"
						}
					}
				}
				var cc *ConfCase
				if !obs.Diverged {
					cc = &ConfCase{Text: text, Gen: gen, HasState: true, HasMemo: true, Runs: []ConfRun{{Input: in, Opts: o, Script: script, Obs: obs}, {Input: in, Opts: o0, Script: script, Obs: base}}}
				}
				c.Report(Violation{Desc: diffs[0], Grammar: text, Gen: gen.String(), Input: string(in), InputHex: hexOf(in), Opts: optsString(&o) + " " + scriptString(script), Diffs: diffs}, known, cc)
			}
		}
	}
	// F4: left-recursive grammars (generated with -support-left-recursion): direct,
	// towers and indirect pairs with both name orders, entered through either rule
	gen = core.Gen{LeftRec: true}
	{
		lit := peg.Lit
		var lrs []*peg.Grammar
		for _, t := range []string{"a", "b"} {
			for _, u := range []string{"a", "b"} {
				for _, names := range [][2]string{{"A", "B"}, {"B", "A"}} {
					x, y := names[0], names[1]
					lrs = append(lrs,
						&peg.Grammar{Rules: []*peg.Rule{{Name: "S", Expr: peg.Action(0, peg.Label("v", peg.Ref(x)))}, {Name: x, Expr: peg.Choice(peg.Action(0, peg.Seq(peg.Label("l", peg.Ref(y)), lit(t))), lit("a"))}, {Name: y, Expr: peg.Choice(peg.Action(0, peg.Seq(peg.Label("l", peg.Ref(x)), lit(u))), lit("b"))}}},
						&peg.Grammar{Rules: []*peg.Rule{{Name: "S", Expr: peg.Action(0, peg.Label("v", peg.Ref(y)))}, {Name: x, Expr: peg.Choice(peg.Seq(peg.Ref(y), lit(t)), lit("a"))}, {Name: y, Expr: peg.Choice(peg.Seq(peg.Ref(x), lit(u)), lit("b"))}}},
						&peg.Grammar{Rules: []*peg.Rule{{Name: x, Expr: peg.Choice(peg.Seq(peg.Ref(y), lit(t)), lit("a"))}, {Name: y, Expr: peg.Choice(peg.Seq(peg.Ref(x), lit(u)), lit("b"))}}},
					)
				}
				lrs = append(lrs,
					&peg.Grammar{Rules: []*peg.Rule{{Name: "S", Expr: peg.Action(0, peg.Label("v", peg.Ref("E")))}, {Name: "E", Expr: peg.Choice(peg.Action(0, peg.Seq(peg.Label("l", peg.Ref("E")), lit(t), peg.Label("r", peg.Ref("T")))), peg.Ref("T"))}, {Name: "T", Expr: peg.Choice(peg.Seq(peg.Ref("T"), lit(u), lit("b")), lit("b"))}}},
					&peg.Grammar{Rules: []*peg.Rule{{Name: "E", Expr: peg.Choice(peg.Seq(peg.Ref("E"), lit(t)), peg.Seq(peg.Ref("E"), lit(u), lit("b")), lit("b"))}}},
				)
			}
		}
		// a non-recursive rule with an action called inside a growth attempt that is discarded AND
		// again afterwards at the same offset
		for _, t := range []string{"a", "b"} {
			lrs = append(lrs,
				&peg.Grammar{Rules: []*peg.Rule{{Name: "S", Expr: peg.Action(0, peg.Seq(peg.Label("v", peg.Ref("E")), peg.Label("w", peg.Opt(peg.Seq(lit("b"), peg.Ref("T"))))))},
					{Name: "E", Expr: peg.Choice(peg.Seq(peg.Ref("E"), lit("b"), peg.Ref("T"), lit(t)), peg.Ref("T"))}, {Name: "T", Expr: peg.Action(0, peg.Cls(false, false, "a", "b"))}}},
				&peg.Grammar{Rules: []*peg.Rule{{Name: "S", Expr: peg.Seq(peg.Ref("E"), peg.Star(peg.Ref("T")))},
					{Name: "E", Expr: peg.Choice(peg.Action(0, peg.Seq(peg.Ref("E"), peg.Ref("T"), lit(t))), peg.Ref("T"))}, {Name: "T", Expr: peg.Action(0, peg.Cls(false, false, "a", "b"))}}},
			)
		}
		// a nullable alternative that can fail in front of the left-recursive alternative, in the
		// leader and in the non-leader of an indirect cycle
		for _, guard := range []func() *peg.Expr{func() *peg.Expr { return peg.And(lit("b")) }, func() *peg.Expr { return peg.Not(lit("a")) }, func() *peg.Expr { return peg.Seq(peg.Opt(lit("b")), peg.And(lit("b"))) }} {
			lrs = append(lrs,
				&peg.Grammar{Rules: []*peg.Rule{{Name: "A", Expr: peg.Choice(peg.Seq(peg.Ref("B"), lit("a")), peg.Seq(peg.Ref("A"), lit("b")), lit("a"))}, {Name: "B", Expr: peg.Choice(guard(), peg.Seq(peg.Ref("A"), lit("b")), lit("b"))}}},
				&peg.Grammar{Rules: []*peg.Rule{{Name: "B", Expr: peg.Choice(peg.Seq(peg.Ref("Z"), lit("a")), peg.Seq(peg.Ref("B"), lit("b")), lit("a"))}, {Name: "Z", Expr: peg.Choice(guard(), peg.Seq(peg.Ref("B"), lit("b")), lit("b"))}}},
				&peg.Grammar{Rules: []*peg.Rule{{Name: "S", Expr: peg.Action(0, peg.Label("v", peg.Ref("A")))}, {Name: "A", Expr: peg.Choice(guard(), peg.Action(0, peg.Seq(peg.Label("l", peg.Ref("B")), lit("a"))), lit("a"))}, {Name: "B", Expr: peg.Choice(peg.Seq(peg.Ref("A"), lit("b")), peg.Seq(peg.Ref("B"), lit("a")), lit("b"))}}},
			)
		}
		savedInputs := inputs
		inputs = peg.Inputs([]string{"a", "b"}, 5) // two growth rounds through the non-leader need 5 bytes
		for _, g := range lrs {
			if c.Expired("F4") {
				return
			}
			peg.Renumber(g, 1)
			peg.AssignArgs(g)
			leaders = nil
			if g.Rule("A") != nil && g.Rule("B") != nil {
				leaders = map[string]bool{"A": true}
			}
			run(g, nil)
			// the same with every action returning an error (errors of abandoned growth attempts)
			if len(g.Blocks()) > 0 {
				es := map[int]*rtapi.Block{}
				for _, blk := range g.Blocks() {
					es[blk.ID] = &rtapi.Block{Err: "e" + itoa(blk.ID)}
				}
				run(g, es)
			}
		}
		inputs = savedInputs
	}
	gen, leaders = core.Gen{}, nil
	// cross family (cross.go): every construct the property admits (no #{}, no throw / recover) next
	// to every other, with and without -optimize-basic-latin and left recursion; predicates true /
	// false, and every action returning an error
	{
		saved := inputs
		inputs = crossInputsSmall
		ok := runCross(c, &idx, &crossSpec{maxSize: 3,
			keep: func(body *peg.Expr) bool {
				bad := false
				body.Walk(func(e *peg.Expr) { bad = bad || e.K == peg.KState || e.K == peg.KThrow || e.K == peg.KRecover })
				return !bad
			},
			each: func(g *peg.Grammar, lr bool) {
				scripts := crossPredScripts(g)
				es := map[int]*rtapi.Block{}
				for _, blk := range g.Blocks() {
					es[blk.ID] = &rtapi.Block{}
					if blk.K == peg.KAction {
						es[blk.ID].Err = "e" + itoa(blk.ID)
					}
				}
				scripts = append(scripts, es)
				for _, bl := range []bool{false, true} {
					gen = core.Gen{LeftRec: lr, BasicLatin: bl}
					for _, sc := range scripts {
						runAll(g, sc)
					}
				}
			}})
		inputs = saved
		gen = core.Gen{}
		if !ok {
			return
		}
	}
	// F1
	en := peg.NewEnumerator(peg.Alphabet{Leaves: baseLeaves(), Unary: allUnary, Seq: true, Choice: true, MaxArity: 3})
	for _, body := range en.UpTo(n) {
		if c.Expired("F1") {
			return
		}
		run(wrap(body), nil)
	}
	// F2
	for _, body := range en.UpTo(3) {
		for pos := range peg.Nodes(body) {
			if c.Expired("F2") {
				return
			}
			dec := peg.ReplaceNth(body, pos, func(x *peg.Expr) *peg.Expr { return peg.Action(1, peg.Label("x", x), "x") })
			run(wrap(dec), nil)
		}
	}
	// F5: terminals with the same text but different flags or kinds tried at the same offset
	// (a table entry of one must never answer for the other)
	{
		terms := []func() *peg.Expr{
			func() *peg.Expr { return peg.Lit("a") }, func() *peg.Expr { return peg.LitI("a") }, func() *peg.Expr { return peg.LitI("A") },
			func() *peg.Expr { return peg.Cls(false, false, "a") }, func() *peg.Expr { return peg.Cls(false, true, "a") }, func() *peg.Expr { return peg.Cls(true, false, "a") },
			func() *peg.Expr { return peg.Lit("ab") }, func() *peg.Expr { return peg.LitI("ab") }, func() *peg.Expr { return peg.Any() },
		}
		saved := inputs
		inputs = peg.Inputs([]string{"a", "A", "b", "x"}, 3)
		for _, t1 := range terms {
			for _, t2 := range terms {
				if c.Expired("F5") {
					return
				}
				run(wrap(peg.Seq(peg.Choice(peg.Seq(t1(), peg.Lit("x")), t2()), peg.Opt(peg.Choice(peg.Seq(t2(), peg.Lit("x")), t1())))), nil)
			}
		}
		inputs = saved
	}
	// F6: twins - the SAME labelled group written twice in one grammar (under two actions of one
	// choice, in two rules, under a predicate and for real), reached at one offset along two paths.
	// Whatever the builder does with equal sub-expressions, the labels of each occurrence are bound
	// in the scope it is evaluated in
	{
		lit := peg.Lit
		inners := []func() *peg.Expr{
			func() *peg.Expr { return peg.Seq(peg.Label("a", lit("a")), peg.Label("b", peg.Cls(false, false, "a", "b"))) },
			func() *peg.Expr { return peg.Seq(peg.Label("a", peg.Opt(lit("a"))), lit("b")) },
			func() *peg.Expr { return peg.Choice(peg.Label("a", lit("a")), peg.Label("b", lit("b"))) },
			func() *peg.Expr { return peg.Opt(peg.Label("a", lit("a"))) },
			func() *peg.Expr { return peg.Star(peg.Label("a", peg.Cls(false, false, "a", "b"))) },
			func() *peg.Expr { return peg.Label("a", peg.Seq(lit("a"), peg.Opt(lit("b")))) },
		}
		saved := inputs
		inputs = peg.Inputs([]string{"a", "b", "c"}, 3)
		for _, in := range inners {
			for shape := 0; shape < 4; shape++ {
				if c.Expired("F6") {
					return
				}
				var g *peg.Grammar
				switch shape {
				case 0: // two alternatives of one choice, each with its own action
					g = &peg.Grammar{Rules: []*peg.Rule{{Name: "S", Expr: peg.Action(0, peg.Label("v", peg.Choice(peg.Action(0, peg.Seq(in(), lit("c"))), peg.Action(0, peg.Seq(in(), peg.Opt(lit("b")))))))}}}
				case 1: // two rules with the same body
					g = &peg.Grammar{Rules: []*peg.Rule{{Name: "S", Expr: peg.Action(0, peg.Label("v", peg.Choice(peg.Seq(peg.Ref("A"), lit("c")), peg.Ref("B"))))}, {Name: "A", Expr: peg.Action(0, in())}, {Name: "B", Expr: peg.Action(0, in())}}}
				case 2: // under a lookahead, then for real
					g = &peg.Grammar{Rules: []*peg.Rule{{Name: "S", Expr: peg.Action(0, peg.Seq(peg.And(peg.Action(0, peg.Seq(in(), lit("c")))), peg.Label("v", peg.Action(0, peg.Seq(in(), peg.Any())))))}}}
				case 3: // the group once inside a labelled group of an outer action, once alone
					g = &peg.Grammar{Rules: []*peg.Rule{{Name: "S", Expr: peg.Action(0, peg.Choice(peg.Seq(peg.Label("x", peg.Action(0, in())), lit("c")), peg.Seq(in(), peg.AndCode(0))))}}}
				}
				peg.Renumber(g, 1)
				peg.AssignArgs(g)
				run(g, nil)
				es := map[int]*rtapi.Block{}
				for _, blk := range g.Blocks() {
					es[blk.ID] = &rtapi.Block{Pred: rtapi.PredTrue}
				}
				run(g, es)
			}
		}
		inputs = saved
	}
	// F3
	enR := peg.NewEnumerator(peg.Alphabet{Leaves: []*peg.Expr{peg.Lit("a"), peg.Lit("b"), peg.Cls(false, false, "a", "b")}, Unary: []peg.Kind{peg.KOpt, peg.KStar}, Seq: true, Choice: true, MaxArity: 2})
	templates := []func() *peg.Expr{
		func() *peg.Expr { return peg.Choice(peg.Seq(peg.Ref("R"), peg.Lit("b")), peg.Ref("R")) },
		func() *peg.Expr { return peg.Seq(peg.And(peg.Ref("R")), peg.Ref("R")) },
		func() *peg.Expr {
			return peg.Choice(peg.Seq(peg.Ref("R"), peg.Lit("b")), peg.Action(0, peg.Seq(peg.Any(), peg.Label("r", peg.Ref("R")))))
		},
		func() *peg.Expr { return peg.Choice(peg.Ref("R"), peg.Seq(peg.Any(), peg.Ref("R"))) },
		func() *peg.Expr { return peg.Star(peg.Choice(peg.Seq(peg.Ref("R"), peg.Lit("b")), peg.Ref("R"))) },
	}
	// F7: what follows a table hit - after each revisit template a tail that looks at the CURRENT
	// rune: !. . &. [^a] "b" "\u00e9" (a hit restores the position; the rune under it, its width and
	// the end-of-input state must be the ones of that position), inputs ending in a two-byte rune
	{
		tails := []func() *peg.Expr{
			func() *peg.Expr { return peg.Not(peg.Any()) }, func() *peg.Expr { return peg.Any() }, func() *peg.Expr { return peg.And(peg.Any()) },
			func() *peg.Expr { return peg.Cls(true, false, "a") }, func() *peg.Expr { return peg.Lit("b") }, func() *peg.Expr { return peg.Opt(peg.Lit("\u00e9")) },
		}
		saved := inputs
		inputs = peg.Inputs([]string{"a", "b", "\u00e9"}, 3)
		nb := 2
		if c.Thorough() {
			nb = 3
		}
		for _, body := range enR.UpTo(nb) {
			for _, tp := range templates {
				for _, tl := range tails {
					if c.Expired("F7") {
						return
					}
					g := &peg.Grammar{Rules: []*peg.Rule{{Name: "S", Expr: peg.Action(0, peg.Label("v", peg.Seq(tp(), tl())))}, {Name: "R", Expr: peg.Action(0, body.Clone())}}}
					peg.Renumber(g, 1)
					peg.AssignArgs(g)
					run(g, nil)
				}
			}
		}
		inputs = saved
	}
	for _, body := range enR.UpTo(4) {
		var rbodies []*peg.Expr
		rbodies = append(rbodies, peg.Action(0, body.Clone()))
		for pos := range peg.Nodes(body) {
			lab := peg.ReplaceNth(body, pos, func(x *peg.Expr) *peg.Expr { return peg.Label("x", x) })
			rbodies = append(rbodies, peg.Action(0, lab), peg.Action(0, peg.Seq(lab.Clone(), peg.AndCode(0))), peg.Seq(lab.Clone(), peg.NotCode(0)))
		}
		// inline (parenthesised) actions and predicates behind a variable-width prefix: the
		// same block is reached at the same offset from two different starts of the rule
		n0 := len(rbodies)
		if maxInline := map[bool]int{false: 3, true: 4}[c.Thorough()]; len(peg.Nodes(body)) > maxInline {
			n0 = 0
		}
		for _, rb := range rbodies[:n0] {
			rbodies = append(rbodies, peg.Seq(peg.Star(peg.Lit("a")), rb.Clone()))
			if c.Thorough() {
				rbodies = append(rbodies, peg.Action(0, peg.Seq(peg.Opt(peg.Cls(false, false, "a", "b")), peg.Label("p", rb.Clone()))))
			}
		}
		for _, rb := range rbodies {
			for _, tp := range templates {
				if c.Expired("F3") {
					return
				}
				g := &peg.Grammar{Rules: []*peg.Rule{{Name: "S", Expr: peg.Action(0, peg.Label("v", tp()))}, {Name: "R", Expr: rb.Clone()}}}
				peg.Renumber(g, 1)
				peg.AssignArgs(g)
				for variant := 0; variant < 2; variant++ {
					script := map[int]*rtapi.Block{}
					for _, blk := range g.Blocks() {
						bs := &rtapi.Block{}
						switch blk.K {
						case peg.KAndCode:
							bs.Pred = rtapi.PredLabel
						case peg.KNotCode:
							bs.Pred = rtapi.PredLabel
						case peg.KAction:
							if variant == 1 {
								bs.Err = "e" + itoa(blk.ID)
							}
						}
						script[blk.ID] = bs
					}
					run(g, script)
				}
			}
		}
	}
}
