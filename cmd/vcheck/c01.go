package main

import (
	"unicode"
	"verif/engine/core"
	"verif/engine/peg"
	"verif/engine/rtapi"
)

func baseLeaves() []*peg.Expr {
	return []*peg.Expr{peg.Lit("a"), peg.Lit("b"), peg.Lit("ab"), peg.Lit(""), peg.Cls(false, false, "a", "b"), peg.Cls(true, false, "a"), peg.Any()}
}

var allUnary = []peg.Kind{peg.KOpt, peg.KStar, peg.KPlus, peg.KAnd, peg.KNot}

func init() {
	register(&Check{
		ID: "C01", Level: "exploration", QuickSecs: 150, ThoroughSecs: 1500,
		Rule:        "all grammars S <- v:(body){probe} with body over {'a','b',\"ab\",\"\",[ab],[^a],.} x {?,*,+,&,!} x seq/choice (arity<=3) up to N nodes (quick 5, thorough 6), a second family with i-flag/Unicode terminals, a memo-table family (a sequence-valued rule matched inside a failing sequence and again at the same offset inside sequences with other item counts; 9 grammars, inputs up to 6, default options and Memoize), a two-rule family with every Entrypoint, every single label+action decoration of bodies up to 4 nodes, left-recursive grammars generated with -support-left-recursion (direct tower, indirect pairs in both name orders; default options and Memoize(true)), rule graphs (reference graphs over four rules with dead, shared and recursive rules) generated with -optimize-grammar, a case sweep (EVERY rune with a case variant below U+3000 and in the later cased blocks as i-literal, as first rune of a longer i-literal and as i-class, against each member of its case orbit), and a family generated with -optimize-grammar (one leaf rule inlined at two places next to different neighbours, compared on success, prefix and flat value); x all inputs over the family's alphabet up to L; x 4 generation flag sets; each compared with the reference PEG interpreter (success, consumed prefix, exact value shape). Non-trivial = the reference backtracked over consumed input. Plus the cross family (cross.go: ALL bodies of <= 3 nodes - thorough 4 - over every expression kind of the grammar language, terminals incl. a mixed-case i-class, an action rule R - left-recursive under -support-left-recursion - and a terminal-only rule T with display names; x all 16 combinations of -optimize-parser, -optimize-basic-latin, -optimize-grammar, -support-left-recursion; entry at S and at R; 25 inputs incl. a capital, a two-byte rune, newlines, invalid bytes); every 10th case is followed by a call on the NEXT input with the same option values (must equal that input alone), every other 10th by the same call again.",
		Assumptions: []string{"runtime loaded through E1 (emitted grammar literal rebuilt in-process into the working tree's static code); bound to the compiler path by the conformance check", "code blocks are scripted probes"},
		Run:         runC01,
	})
}

func runC01(c *ShardCtx) {
	nontriv := func(ref *peg.Result, _ *rtapi.Obs) bool { return ref.Backtracked }
	idx := 0
	// family 1: base alphabet
	n, l := 5, 3
	if c.Thorough() {
		n, l = 6, 4
	}
	en := peg.NewEnumerator(peg.Alphabet{Leaves: baseLeaves(), Unary: allUnary, Seq: true, Choice: true, MaxArity: 3})
	fam := &family{gens: gens4, inputs: peg.Inputs([]string{"a", "b"}, l), opts: []rtapi.RunOpts{{MaxExpr: 600}}, nontrivial: nontriv, confEvery: 97, confQuota: 1}
	for size := 1; size <= n; size++ {
		for _, body := range en.Size(size) {
			idx++
			if !c.Mine(idx) {
				continue
			}
			if c.Expired("family 1 cut at body size " + itoa(size)) {
				return
			}
			runGrammar(c, wrap(body), fam)
		}
	}
	// family 2: case-insensitive / Unicode terminals
	leaves2 := []*peg.Expr{peg.LitI("A"), peg.LitI("aB"), peg.Cls(false, true, "a-b"), peg.Cls(true, true, "A"), peg.Cls(false, false, `\pL`), peg.Cls(false, true, `\p{Lu}`), peg.Cls(false, false, "a-é"), peg.Cls(true, false, "B-ÿ"), peg.Cls(false, true, "!-_"), peg.Lit("é"), peg.Cls(false, true, "é"), peg.Lit("a"), peg.Cls(false, true, "Z", "b"), peg.Cls(true, true, "b", "Z", "É")}
	en2 := peg.NewEnumerator(peg.Alphabet{Leaves: leaves2, Unary: allUnary, Seq: true, Choice: true, MaxArity: 2})
	n2 := 3
	if c.Thorough() {
		n2 = 4
	}
	fam2 := &family{gens: gens4, inputs: peg.Inputs([]string{"a", "A", "b", "B", "é", "É", "1"}, 2), opts: []rtapi.RunOpts{{MaxExpr: 600}}, nontrivial: nontriv, confEvery: 97, confQuota: 1}
	for _, body := range en2.UpTo(n2) {
		idx++
		if !c.Mine(idx) {
			continue
		}
		if c.Expired("family 2") {
			return
		}
		runGrammar(c, wrap(body), fam2)
	}
	// family 2b: hyphens in every position of a class (first, last, after a range, escaped, between a
	// character and a range): which runes the generated parser accepts, against classes stated
	// item by item
	{
		mk := func(src string, inv bool, items ...string) *peg.Expr {
			e := peg.Cls(inv, false, items...)
			e.Src = src
			return e
		}
		hy := []*peg.Expr{
			mk("[ab-d-z]", false, "a", "b-d", "-", "z"), mk("[-a-c]", false, "-", "a-c"), mk("[a-c-]", false, "a-c", "-"), mk("[a-c-e]", false, "a-c", "-", "e"),
			mk(`[a\-c]`, false, "a", "-", "c"), mk("[_a-c-.]", false, "_", "a-c", "-", "."), mk("[+0-9-e]", false, "+", "0-9", "-", "e"), mk("[^ab-d-z]", true, "a", "b-d", "-", "z"),
			mk("[a-c-e-g]", false, "a-c", "-", "e-g"), mk("[--0]", false, "--0"), mk("[a--]", false, "a--"), // (by the grammar's own ClassCharRange rule this is the DESCENDING range a..-, which no rune satisfies)
			mk("[a-]", false, "a", "-"), mk("[-]", false, "-"), mk("[--]", false, "-", "-"), mk("[---]", false, "---"),
		}
		var ins [][]byte
		for _, r := range "abcdefgz-_.+,/059" {
			ins = append(ins, []byte(string(r)), []byte(string(r)+"-"))
		}
		famH := &family{gens: gens4, inputs: ins, opts: []rtapi.RunOpts{{MaxExpr: 100}}, nontrivial: func(ref *peg.Result, _ *rtapi.Obs) bool { return ref.Matched }, confEvery: 3, confQuota: 1}
		for _, h := range hy {
			idx++
			if !c.Mine(idx) {
				continue
			}
			runGrammar(c, wrap(peg.Seq(h.Clone(), peg.Opt(h.Clone()))), famH)
		}
	}
	// family 2c: value shapes under the memo table - a sequence-valued rule P matched inside a sequence
	// that fails afterwards and evaluated again at the same offset inside a sequence with ANOTHER
	// number of items, alone, in a loop and below an outer sequence; default options and Memoize(true)
	// (the value a rule returned once must not change when a later sequence is built)
	{
		lit := peg.Lit
		ps := []func() *peg.Expr{
			func() *peg.Expr { return peg.Seq(peg.Cls(false, false, "a", "b"), peg.Cls(false, false, "a", "b")) },
			func() *peg.Expr { return peg.Seq(lit("a"), peg.Opt(lit("b")), peg.Star(lit("a"))) },
			func() *peg.Expr { return peg.Plus(peg.Seq(lit("a"), peg.Opt(lit("b")))) },
		}
		ts := []func() *peg.Expr{
			func() *peg.Expr { return peg.Choice(peg.Seq(peg.Ref("P"), lit("b")), peg.Seq(peg.Ref("P"), lit("a"), lit("a"))) },
			func() *peg.Expr { return peg.Star(peg.Choice(peg.Seq(peg.Ref("P"), lit("b"), lit("b")), peg.Seq(peg.Ref("P"), lit("a")), peg.Ref("P"))) },
			func() *peg.Expr { return peg.Seq(peg.Opt(lit("b")), peg.Choice(peg.Seq(peg.Ref("P"), lit("b")), peg.Seq(peg.Ref("P"), peg.Ref("P"), lit("a")), peg.Seq(peg.Ref("P"), lit("a"), lit("a"), peg.Opt(lit("b")))), peg.Not(peg.Any())) },
		}
		famM := &family{gens: gens2, inputs: peg.Inputs([]string{"a", "b"}, 6), opts: []rtapi.RunOpts{{MaxExpr: 3000}, {MaxExpr: 3000, Memoize: true}},
			nontrivial: func(ref *peg.Result, _ *rtapi.Obs) bool { return ref.Matched && ref.Backtracked }, confEvery: 3, confQuota: 1}
		for _, p := range ps {
			for _, t := range ts {
				idx++
				if !c.Mine(idx) {
					continue
				}
				runGrammar(c, wrap(t(), &peg.Rule{Name: "P", Expr: p()}), famM)
			}
		}
	}
	// family 3: two rules, every entrypoint
	leaves3 := []*peg.Expr{peg.Lit("a"), peg.Cls(false, false, "a", "b"), peg.Any(), peg.Ref("A")}
	en3 := peg.NewEnumerator(peg.Alphabet{Leaves: leaves3, Unary: allUnary, Seq: true, Choice: true, MaxArity: 2})
	enA := peg.NewEnumerator(peg.Alphabet{Leaves: []*peg.Expr{peg.Lit("a"), peg.Lit("b"), peg.Lit("")}, Unary: []peg.Kind{peg.KOpt, peg.KStar, peg.KNot}, Seq: true, Choice: true})
	n3 := 4
	if c.Thorough() {
		n3 = 5
	}
	var eps []rtapi.RunOpts
	for _, ep := range []*string{nil, strp(""), strp("A"), strp("S"), strp("Zz")} {
		eps = append(eps, rtapi.RunOpts{MaxExpr: 600, Entrypoint: ep})
	}
	fam3 := &family{gens: gens2, inputs: peg.Inputs([]string{"a", "b"}, 3), opts: eps, nontrivial: nontriv, confEvery: 97, confQuota: 1}
	for _, body := range en3.UpTo(n3) {
		if len(peg.RefsOf(body)) == 0 {
			continue
		}
		for _, ab := range enA.UpTo(3) {
			idx++
			if !c.Mine(idx) {
				continue
			}
			if c.Expired("family 3") {
				return
			}
			runGrammar(c, wrap(body, &peg.Rule{Name: "A", Expr: ab}), fam3)
		}
	}
	// family 5: -optimize-grammar (a generation flag like the others): multi-rule grammars whose
	// leaf rule is inlined at two places next to different neighbours; success, consumed prefix
	// and flat value (the optimizer may regroup action-less structure) against the reference
	inputs5 := peg.Inputs([]string{"a", "b", "c"}, 3)
	for _, ga := range twoSiteFamily() {
		idx++
		if !c.Mine(idx) {
			continue
		}
		if c.Expired("family 5") {
			return
		}
		optGrammarVsReference(c, wrapFirst(ga.g), []core.Gen{{OptGrammar: true}, {OptGrammar: true, Optimize: true, BasicLatin: true}}, inputs5, "-optimize-grammar")
	}
	// family 7: left-recursive grammars (-support-left-recursion; direct, indirect pairs in both name
	// orders, a tower) with default options and with Memoize(true): success, consumed prefix and
	// value against the reference (seed growing at the cycle's leader)
	{
		lit := peg.Lit
		var lrs []struct {
			g      *peg.Grammar
			leader string
		}
		for _, t := range []string{"a", "b"} {
			for _, names := range [][2]string{{"A", "B"}, {"B", "A"}} {
				x, y := names[0], names[1]
				lrs = append(lrs, struct {
					g      *peg.Grammar
					leader string
				}{wrapRef(x, &peg.Rule{Name: x, Expr: peg.Choice(peg.Seq(peg.Ref(y), lit(t)), lit("a"))}, &peg.Rule{Name: y, Expr: peg.Choice(peg.Seq(peg.Ref(x), lit("b")), lit("b"))}), "A"})
			}
			lrs = append(lrs, struct {
				g      *peg.Grammar
				leader string
			}{wrapRef("E", &peg.Rule{Name: "E", Expr: peg.Choice(peg.Seq(peg.Ref("E"), lit(t), peg.Ref("T")), peg.Ref("T"))}, &peg.Rule{Name: "T", Expr: peg.Choice(peg.Seq(peg.Ref("T"), lit("b"), lit("a")), lit("a"))}), ""})
		}
		fam7 := &family{gens: []core.Gen{{LeftRec: true}, {LeftRec: true, Optimize: true}}, inputs: peg.Inputs([]string{"a", "b"}, 5), opts: []rtapi.RunOpts{{MaxExpr: 6000}, {MaxExpr: 6000, Memoize: true}},
			nontrivial: func(ref *peg.Result, _ *rtapi.Obs) bool { return ref.Matched }, confEvery: 3, confQuota: 1, cmp: core.CmpOpts{SkipLog: true}}
		for _, lr := range lrs {
			idx++
			if !c.Mine(idx) {
				continue
			}
			f := *fam7
			if lr.leader != "" {
				ld := lr.leader
				f.refOpts = func(o *peg.Options) { o.LeaderHeads = map[string]bool{ld: true} }
			}
			runGrammar(c, lr.g, &f)
		}
	}
	// family 5b: rule graphs through -optimize-grammar (dead rules, shared recursive rules, leaf rules
	// inlined into removed rules): the start rule still matches what it matched
	for gi, ga := range ruleGraphFamily(c.Thorough()) {
		if !c.Thorough() && gi%3 != 0 {
			continue
		}
		idx++
		if !c.Mine(idx) {
			continue
		}
		if c.Expired("family 5b") {
			return
		}
		optGrammarVsReference(c, wrapFirst(ga.g), []core.Gen{{OptGrammar: true}, {OptGrammar: true, AltEntry: []string{"D"}}}, inputs5, "-optimize-grammar")
	}
	// family 6: case sweep. EVERY rune with a case variant (below U+3000 and in the later cased
	// blocks) as an i-flagged literal, as the first rune of a longer i-flagged literal and as an
	// i-flagged one-rune class, each against every member of its case orbit (lower, upper, title,
	// simple folds) and a neighbour; 8 runes = 24 rules per grammar, selected with Entrypoint
	{
		cased := casedRunes()
		for at := 0; at < len(cased); at += 8 {
			idx++
			if !c.Mine(idx) {
				continue
			}
			if c.Expired("family 6") {
				return
			}
			end := at + 8
			if end > len(cased) {
				end = len(cased)
			}
			var rules []*peg.Rule
			var eps []rtapi.RunOpts
			seen := map[string]bool{}
			var ins [][]byte
			addIn := func(s string) {
				if !seen[s] {
					seen[s] = true
					ins = append(ins, []byte(s))
				}
			}
			for k, r := range cased[at:end] {
				names := []string{"L" + itoa(k), "M" + itoa(k), "K" + itoa(k)}
				rules = append(rules, &peg.Rule{Name: names[0], Expr: peg.LitI(string(r))}, &peg.Rule{Name: names[1], Expr: peg.LitI(string(r) + "eP")},
					&peg.Rule{Name: names[2], Expr: peg.Cls(false, true, string(r))})
				for _, nm := range names {
					eps = append(eps, rtapi.RunOpts{MaxExpr: 100, Entrypoint: strp(nm)})
				}
				orbit := []rune{r, unicode.ToLower(r), unicode.ToUpper(r), unicode.ToTitle(r), r + 1}
				for f := unicode.SimpleFold(r); f != r; f = unicode.SimpleFold(f) {
					orbit = append(orbit, f)
				}
				for _, x := range orbit {
					addIn(string(x))
					addIn(string(x) + "Ep")
				}
			}
			fam6 := &family{gens: gens4, inputs: ins, opts: eps, nontrivial: func(ref *peg.Result, _ *rtapi.Obs) bool { return ref.Matched }, confEvery: 97, confQuota: 1}
			runGrammar(c, wrap(peg.Lit("q"), rules...), fam6)
		}
	}
	// cross family: every construct x every flag set (see cross.go); value and consumed prefix
	// (bodies up to 3 nodes here; the thorough tier adds the 4-node bodies after the last family)
	crossEps := []rtapi.RunOpts{{MaxExpr: 600}, {MaxExpr: 600, Entrypoint: strp("R")}}
	if !runCross(c, &idx, &crossSpec{maxSize: 3, gens: gens16, inputs: crossInputs, opts: crossEps, scripts: crossPredScripts, nontrivial: nontriv,
		cmp: core.CmpOpts{SkipLog: true, SkipNoMatch: true}}) {
		return
	}
	// family 4: every single label+action decoration
	n4 := 4
	if c.Thorough() {
		n4 = 5
	}
	fam4 := &family{gens: gens2, inputs: peg.Inputs([]string{"a", "b"}, 3), opts: []rtapi.RunOpts{{MaxExpr: 600}}, nontrivial: nontriv, confEvery: 97, confQuota: 1}
	for _, body := range en.UpTo(n4) {
		for pos := range peg.Nodes(body) {
			idx++
			if !c.Mine(idx) {
				continue
			}
			if c.Expired("family 4") {
				return
			}
			dec := peg.ReplaceNth(body, pos, func(x *peg.Expr) *peg.Expr { return peg.Action(1, peg.Label("x", x), "x") })
			runGrammar(c, wrap(dec), fam4)
		}
	}
	if c.Thorough() {
		runCross(c, &idx, &crossSpec{minSize: 4, maxSize: 4, gens: gens16, inputs: crossInputs, opts: crossEps, scripts: crossPredScripts, nontrivial: nontriv,
			cmp: core.CmpOpts{SkipLog: true, SkipNoMatch: true}})
	}
}

// wrapRef is S <- v:Rule {probe} in front of the given rules.
func wrapRef(name string, rules ...*peg.Rule) *peg.Grammar {
	return wrap(peg.Ref(name), rules...)
}

// wrapFirst puts the first rule's expression under the standard top action so
// that the consumed prefix is observable.
func wrapFirst(g *peg.Grammar) *peg.Grammar {
	h := g.Clone()
	h.Rules[0].Expr = peg.Action(100, peg.Label("v", h.Rules[0].Expr), "v")
	return h
}

// casedRunes: every rune with a case variant below U+3000 and in the later cased blocks.
func casedRunes() []rune {
	var cased []rune
	for _, blk := range [][2]rune{{0x41, 0x2FFF}, {0xA640, 0xA7FF}, {0xAB70, 0xABBF}, {0xFF21, 0xFF5A}, {0x10400, 0x1044F}, {0x1E900, 0x1E943}} {
		for r := blk[0]; r <= blk[1]; r++ {
			if unicode.ToLower(r) != r || unicode.ToUpper(r) != r || unicode.ToTitle(r) != r || unicode.SimpleFold(r) != r {
				cased = append(cased, r)
			}
		}
	}
	return cased
}
