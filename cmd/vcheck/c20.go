package main

import (
	"bytes"
	"fmt"
	"os"
	"os/exec"
	"path/filepath"
	"strconv"
	"strings"

	"github.com/mna/pigeon/ast"
	"github.com/mna/pigeon/bootstrap"

	"verif/engine/core"
	"verif/engine/hook"
	"verif/engine/peg"
)

func init() {
	register(&Check{
		ID: "C20", Level: "exploration", QuickSecs: 170, ThoroughSecs: 1200,
		Rule:        "(a) all texts printed from reference ASTs over the bootstrap subset (char/string/raw literals with i, a raw string with carriage returns, classes, any, rule references, & ! ? * +, labels, actions, nested sequences/choices, display names) up to N nodes (quick 4, thorough 5) in the canonical spelling and with every single spelling deviation of {4 definition operators, ';' separators, literal quotings, escapes, full parentheses, code block bodies with nested braces/strings/comments}: the hand-written bootstrap front-end (bootstrap.Parser, linked as a library) must accept every text (except the spellings it is known not to cover: comments between rules, braces inside string/rune literals of code blocks - skipped and counted), the generated front-end (hook ast mode) must accept it too and both must build a structurally identical AST (positions and display-name quoting aside). (b) the whole working tree is copied to a scratch directory and 'make -B all' re-runs the three bootstrap stages and regenerates every checked-in artifact with the Makefile's flags; every regenerated file must be byte-identical to the tree (complete, finite; plain regeneration, not exploration). Non-trivial = texts accepted by the bootstrap front-end with >= 3 nodes, plus one per regenerated artifact. Plus a rune family (13 runes at the edges of the UTF-8 encoding lengths, the surrogate gap and the code space, raw and in every escape form, in literals, classes and range bounds; finding D34) and blanks between an operator and its operand.",
		Assumptions: []string{"the bootstrap subset is what grammar/bootstrap.peg describes; the families only use its constructs; comments between rules and braces inside literals of code blocks are not covered by the hand-written scanner and are skipped (counted)", "GNU make and the Makefile's own recipes perform the regeneration"},
		Explanation: "part (b) is an exhaustive regeneration of the finite artifact set, not a state-space search",
		Run:         runC20,
		Post:        postC20,
	})
}

func dumpPos(p ast.Pos) [3]int { return [3]int{p.Line, p.Col, p.Off} }

func dumpGrammar(g *ast.Grammar) *hook.Node {
	n := &hook.Node{K: "grammar", P: dumpPos(g.Pos())}
	if g.Init != nil {
		n.Code = &hook.Node{K: "code", V: []byte(g.Init.Val)}
	}
	for _, r := range g.Rules {
		rn := &hook.Node{K: "rule"}
		if r.Name != nil {
			rn.Name = &hook.Node{K: "ident", V: []byte(r.Name.Val)}
		}
		if r.DisplayName != nil {
			rn.Display = &hook.Node{K: "string", V: []byte(r.DisplayName.Val)}
		}
		rn.Kids = []*hook.Node{dumpExpr(r.Expr)}
		n.Kids = append(n.Kids, rn)
	}
	return n
}

func dumpExpr(e ast.Expression) *hook.Node {
	if e == nil {
		return &hook.Node{K: "nil"}
	}
	n := &hook.Node{}
	one := func(k string, sub ast.Expression) *hook.Node {
		n.K = k
		n.Kids = []*hook.Node{dumpExpr(sub)}
		return n
	}
	code := func(c *ast.CodeBlock) *hook.Node {
		if c == nil {
			return nil
		}
		return &hook.Node{K: "code", V: []byte(c.Val)}
	}
	switch e := e.(type) {
	case *ast.ChoiceExpr:
		n.K = "choice"
		for _, a := range e.Alternatives {
			n.Kids = append(n.Kids, dumpExpr(a))
		}
	case *ast.SeqExpr:
		n.K = "seq"
		for _, a := range e.Exprs {
			n.Kids = append(n.Kids, dumpExpr(a))
		}
	case *ast.ActionExpr:
		n.Code = code(e.Code)
		return one("action", e.Expr)
	case *ast.LabeledExpr:
		if e.Label != nil {
			n.Name = &hook.Node{K: "ident", V: []byte(e.Label.Val)}
		}
		return one("label", e.Expr)
	case *ast.AndExpr:
		return one("and", e.Expr)
	case *ast.NotExpr:
		return one("not", e.Expr)
	case *ast.ZeroOrOneExpr:
		return one("opt", e.Expr)
	case *ast.ZeroOrMoreExpr:
		return one("star", e.Expr)
	case *ast.OneOrMoreExpr:
		return one("plus", e.Expr)
	case *ast.RuleRefExpr:
		n.K = "ref"
		if e.Name != nil {
			n.Name = &hook.Node{K: "ident", V: []byte(e.Name.Val)}
		}
	case *ast.LitMatcher:
		n.K, n.V, n.I = "lit", []byte(e.Val), e.IgnoreCase
	case *ast.CharClassMatcher:
		n.K, n.V, n.I, n.Inv = "class", []byte(e.Val), e.IgnoreCase, e.Inverted
		n.Chars, n.Ranges, n.Classes = e.Chars, e.Ranges, e.UnicodeClasses
	case *ast.AnyMatcher:
		n.K = "any"
	default:
		n.K = fmt.Sprintf("unknown:%T", e)
	}
	return n
}

// normDisplay strips the quoting difference of display names.
func normDisplay(n *hook.Node) {
	if n == nil {
		return
	}
	if n.K == "rule" && n.Display != nil {
		if s, err := strconv.Unquote(string(n.Display.V)); err == nil {
			n.Display = &hook.Node{K: "string", V: []byte(s)}
		}
	}
	for _, k := range n.Kids {
		normDisplay(k)
	}
}

func runC20(c *ShardCtx) {
	n := 4
	if c.Thorough() {
		n = 5
	}
	leaves := []*peg.Expr{peg.Lit("a"), peg.LitI("aB"), peg.Lit("é\n\"\\"), peg.Cls(false, false, "a-c", "]", "x"), peg.Cls(true, true, "a", `\pL`), peg.Any(), peg.Ref("B")}
	// a raw string holding carriage returns (discarded, Go semantics): explicit spelling
	rawCR := peg.Lit("a\nb")
	rawCR.Src = "`a\r\r\nb\r`"
	leaves = append(leaves, rawCR)
	en := peg.NewEnumerator(peg.Alphabet{Leaves: leaves, Unary: allUnary, Seq: true, Choice: true, MaxArity: 3, NestSame: true})
	var devs []deviation
	for _, d := range deviations() {
		switch {
		case strings.HasPrefix(d.name, "defop"), strings.HasPrefix(d.name, "rulesep"), strings.HasPrefix(d.name, "initsep"), strings.HasPrefix(d.name, "lastsep"),
			strings.Contains(d.name, "quotes"), strings.HasPrefix(d.name, "literal escape"), strings.HasPrefix(d.name, "class escape"), d.name == "all parens",
			strings.HasPrefix(d.name, "code style"), strings.HasPrefix(d.name, "space \"  "), strings.HasPrefix(d.name, "space \"\\t"), strings.HasPrefix(d.name, "lead"), d.name == "no initializer",
			d.name == `opspace " "`: // blanks between an operator (label colon, prefix, suffix) and its operand
			devs = append(devs, d)
		}
	}
	idx := 0
	check := func(g *peg.Grammar, ds []deviation, size int) {
		idx++
		if !c.Mine(idx) {
			return
		}
		o := &peg.PrintOpts{}
		names := ""
		for _, d := range ds {
			d.apply(o)
			names += d.name + "; "
		}
		text := peg.Print(g, o)
		c.Res.Evaluations++
		var bg *ast.Grammar
		var berr error
		func() {
			// (the hand-written front-end runs in this process: a Go panic inside it is an
			// observation about it, not a failure of the harness)
			defer func() {
				if e := recover(); e != nil {
					berr = fmt.Errorf("Go panic in the bootstrap front-end: %v", e)
				}
			}()
			bg, berr = bootstrap.NewParser().Parse("", strings.NewReader(text))
		}()
		if berr != nil {
			if os.Getenv("C20_DEBUG") != "" {
				c.Res.Counters["reject:"+names+" :: "+strings.SplitN(berr.Error(), "\n", 2)[0]]++
			}
			// the hand-written front-end does not skip comments between rules and does not
			// look inside string / rune literals of code blocks: those spellings are outside
			// its subset. Every other text of the families is made of constructs of
			// grammar/bootstrap.peg only, so it has to be understood.
			outside := false
			for _, d := range ds {
				if strings.Contains(d.name, "//") || strings.Contains(d.name, "/*") || (strings.HasPrefix(d.name, "code style") && d.name != "code style 1") {
					outside = true
				}
			}
			if outside {
				c.Res.Counters["not_in_bootstrap_subset"]++
				return
			}
			r, err := c.W.Srv.Call(&hook.Req{Mode: "ast", Text: []byte(text)})
			if err != nil {
				panic(&core.HarnessError{Msg: err.Error()})
			}
			if r.Err != "" || r.Panic != "" || r.Hung {
				c.Res.Counters["rejected_by_both_front_ends"]++
				return
			}
			known := ""
			if lt := strings.ToLower(text); strings.Contains(berr.Error(), "escape sequence is invalid Unicode code point") && (strings.Contains(lt, `\ue000`) || strings.Contains(lt, `\u0000e000`)) {
				// exactly finding D34: the escape of U+E000, the first code point after the surrogates
				known = "bootstrap-e000"
			}
			c.Report(Violation{Desc: "the hand-written bootstrap front-end rejects a text of its subset that the generated front-end accepts: " + strings.SplitN(berr.Error(), "\n", 2)[0], Grammar: text, Opts: names}, known)
			return
		}
		c.Res.Counters["bootstrap_accepts"]++
		if size >= 3 {
			c.Res.Nontrivial++
		}
		r, err := c.W.Srv.Call(&hook.Req{Mode: "ast", Text: []byte(text)})
		if err != nil {
			panic(&core.HarnessError{Msg: err.Error()})
		}
		if idx%499 == 1 {
			c.Sample(map[string]any{"text": text, "deviations": names})
		}
		if r.Err != "" || r.Panic != "" || r.Hung {
			c.Report(Violation{Desc: "bootstrap front-end accepts, generated front-end rejects: " + r.Err + r.Panic, Grammar: text, Opts: names}, "")
			return
		}
		want := dumpGrammar(bg)
		got := r.AST
		normDisplay(got)
		if d := diffAST(want, got, false, ""); d != "" {
			c.Report(Violation{Desc: "bootstrap and generated front-end build different ASTs: " + d, Grammar: text, Opts: names}, "")
		}
	}
	ruleB := func() *peg.Rule { return &peg.Rule{Name: "B", Display: "the B", Expr: peg.Lit("b")} }
	// rune family: the runes at the edges of the UTF-8 encoding lengths, of the surrogate gap and
	// of the code space (U+FFFD - the rune a decoder also returns for an invalid byte - among them)
	// written raw and in every escape form: in literals of each quoting, as class member, as both
	// bounds of a range, next to each other
	for _, r := range []rune{0x7f, 0x80, 0xff, 0x7ff, 0x800, 0xd7ff, 0xe000, 0xfffc, 0xfffd, 0xfffe, 0xffff, 0x10000, 0x10ffff} {
		if c.Expired("rune family") {
			return
		}
		rs := string(r)
		bodies := []*peg.Expr{
			peg.Lit(rs), peg.LitI(rs + "a"), peg.Lit("a" + rs + rs), peg.Cls(false, false, rs), peg.Cls(true, true, rs, "a"),
			peg.Seq(peg.Lit(rs), peg.Cls(false, false, "a", rs, "b")),
		}
		if r > 0x80 && r != 0xe000 {
			bodies = append(bodies, peg.Cls(false, false, string(r-1)+"-"+rs), peg.Cls(false, false, "a-"+rs))
		}
		if r < 0x10ffff && r != 0xd7ff {
			bodies = append(bodies, peg.Cls(false, false, rs+"-"+string(r+1)))
		}
		for _, body := range bodies {
			c.Res.Grammars++
			g := &peg.Grammar{Rules: []*peg.Rule{{Name: "A", Expr: body}, ruleB()}}
			check(g.Clone(), nil, 3)
			for _, d := range devs {
				check(g.Clone(), []deviation{d}, 3)
			}
		}
	}
	for size := 1; size <= n; size++ {
		for _, body := range en.Size(size) {
			if c.Expired("AST size " + itoa(size)) {
				return
			}
			c.Res.Grammars++
			mk := func(dec int) *peg.Grammar {
				e := body.Clone()
				switch dec {
				case 1:
					e = peg.Action(7, e)
				case 2:
					e = peg.Action(7, peg.Seq(peg.Label("x", e), peg.Label("y", peg.Lit("z"))))
				case 3:
					e = peg.Choice(peg.Action(7, e), peg.Action(8, peg.Lit("z")))
				}
				return &peg.Grammar{Rules: []*peg.Rule{{Name: "A", Expr: e}, ruleB()}}
			}
			for dec := 0; dec < 4; dec++ {
				check(mk(dec), nil, size)
				if size <= n-1 {
					for _, d := range devs {
						check(mk(dec), []deviation{d}, size)
					}
				}
			}
		}
	}
}

// postC20 runs part (b) once, in the parent.
func postC20(tier string, m *ShardResult) {
	dir, err := os.MkdirTemp("", "verif-c20-")
	if err != nil {
		m.HarnessErr = err.Error()
		return
	}
	defer os.RemoveAll(dir)
	cp := exec.Command("rsync", "-a", "--exclude=.git", "--exclude=/bin", "/repo/", dir+"/")
	if out, err := cp.CombinedOutput(); err != nil {
		panic(&core.HarnessError{Msg: "copy working tree: " + err.Error() + string(out)})
	}
	mk := exec.Command("make", "-B", "all")
	mk.Dir = dir
	mk.Env = append(os.Environ(), "GOFLAGS=-mod=mod", "GOPROXY=off")
	out, err := mk.CombinedOutput()
	if err != nil {
		m.NViolations++
		m.Violations = append(m.Violations, Violation{Property: "C20", Desc: "regenerating the artifacts with 'make -B all' fails: " + err.Error(), Diffs: []string{tail(string(out), 2000)}})
		return
	}
	n := 0
	filepath.Walk(dir, func(p string, info os.FileInfo, err error) error {
		if err != nil || info.IsDir() {
			return nil
		}
		rel, _ := filepath.Rel(dir, p)
		if strings.HasPrefix(rel, "bin/") || rel == "go.sum" || rel == "go.mod" {
			return nil
		}
		a, _ := os.ReadFile(p)
		b, err2 := os.ReadFile(filepath.Join("/repo", rel))
		if err2 != nil || !bytes.Equal(a, b) {
			m.NViolations++
			m.Violations = append(m.Violations, Violation{Property: "C20", Desc: "checked-in generated file is not reproduced byte for byte by 'make -B all': " + rel, Grammar: rel})
		}
		n++
		return nil
	})
	targets := strings.Count(string(out), "pigeon ") + strings.Count(string(out), "static_code_generator ") + strings.Count(string(out), "bootstrap-build ")
	m.Evaluations += int64(targets)
	m.Nontrivial += int64(targets)
	m.Counters["artifacts_regenerated"] = int64(targets)
	m.Counters["files_compared"] = int64(n)
}

func tail(s string, n int) string {
	if len(s) > n {
		return s[len(s)-n:]
	}
	return s
}
