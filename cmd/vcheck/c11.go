package main

import (
	"verif/engine/core"
	"verif/engine/peg"
	"verif/engine/rtapi"
)

func init() {
	register(&Check{
		ID: "C11", Level: "exploration", QuickSecs: 150, ThoroughSecs: 1200,
		Rule:        "skeletons over {'a',.,&{},!{},#{},A} x {?,*,&,!} x seq/choice up to N nodes (quick 4, thorough 5) under a rule-level action, second rule A with a display name and its own action; every fault script giving each block one of {ok, error e<id>, error with a message shared by all blocks, panic(error), panic(string)} with at most 3 faulting blocks, for code predicates both the matching and the failing result; inputs over {a,b} up to L=2; Recover(true)/Recover(false) x filename empty/non-empty; 2 generation flag sets. Compared with the reference: value, complete error list (text incl. file:line:col (offset): rule prefix, order, de-duplication by message), dynamic type errList of *parserError, Inner pointer-identical to the scripted error, panic containment vs propagation. Non-trivial = at least two recorded errors or a panic.",
		Assumptions: []string{"E1 loader", "scripted probes as code blocks"},
		Run:         runC11,
	})
}

// faultScripts enumerates fault assignments with at most max faulting blocks.
func faultScripts(blocks []*peg.Expr, max int, predOK bool) []map[int]*rtapi.Block {
	faults := []rtapi.Block{{}, {Err: "E"}, {Err: "dup"}, {Err: "p", Panic: 1}, {Err: "s", Panic: 2}}
	var out []map[int]*rtapi.Block
	cur := make([]int, len(blocks))
	var rec func(i, used int)
	rec = func(i, used int) {
		if i == len(blocks) {
			s := map[int]*rtapi.Block{}
			for k, b := range blocks {
				blk := faults[cur[k]]
				if blk.Err == "E" {
					blk.Err = "e" + itoa(b.ID)
				}
				switch b.K {
				case peg.KAndCode:
					blk.Pred = rtapi.PredTrue
					if !predOK {
						blk.Pred = rtapi.PredFalse
					}
				case peg.KNotCode:
					blk.Pred = rtapi.PredFalse
					if !predOK {
						blk.Pred = rtapi.PredTrue
					}
				}
				s[b.ID] = &blk
			}
			out = append(out, s)
			return
		}
		for f := range faults {
			if f > 0 && used == max {
				break
			}
			cur[i] = f
			u := used
			if f > 0 {
				u++
			}
			rec(i+1, u)
		}
	}
	rec(0, 0)
	return out
}

func runC11(c *ShardCtx) {
	nontriv := func(ref *peg.Result, obs *rtapi.Obs) bool {
		return len(ref.Errs) >= 2 || ref.Outcome == peg.OEscaped || (len(ref.Errs) > 0 && ref.Errs[len(ref.Errs)-1].Kind == "panic")
	}
	n := 4
	if c.Thorough() {
		n = 5
	}
	leaves := []*peg.Expr{peg.Lit("a"), peg.Any(), peg.AndCode(0), peg.NotCode(0), peg.StateCode(0), peg.Ref("A")}
	en := peg.NewEnumerator(peg.Alphabet{Leaves: leaves, Unary: []peg.Kind{peg.KOpt, peg.KStar, peg.KAnd, peg.KNot}, Seq: true, Choice: true, MaxArity: 3})
	inputs := peg.Inputs([]string{"a", "b"}, 2)
	opts := []rtapi.RunOpts{{MaxExpr: 600}, {MaxExpr: 600, Filename: "f.txt"}, {MaxExpr: 600, NoRecover: true}, {MaxExpr: 600, NoRecover: true, Filename: "f.txt"}}
	idx := 0
	for _, body := range en.UpTo(n) {
		idx++
		if !c.Mine(idx) {
			continue
		}
		if c.Expired("skeleton enumeration") {
			return
		}
		g := &peg.Grammar{Rules: []*peg.Rule{{Name: "S", Expr: peg.Action(0, body)}}}
		if len(peg.RefsOf(body)) > 0 {
			g.Rules = append(g.Rules, &peg.Rule{Name: "A", Display: "the A", Expr: peg.Action(0, peg.Cls(false, false, "a", "b"))})
		}
		peg.Renumber(g, 1)
		peg.AssignArgs(g)
		blocks := g.Blocks()
		var scripts []map[int]*rtapi.Block
		scripts = append(scripts, faultScripts(blocks, 3, true)...)
		if g.Has(peg.KAndCode, peg.KNotCode) {
			scripts = append(scripts, faultScripts(blocks, 2, false)...)
		}
		fam := &family{gens: gens2, inputs: inputs, opts: opts, scripts: scripts, nontrivial: nontriv, cmp: core.CmpOpts{SkipLog: true}, confEvery: 23, confQuota: 1}
		runGrammar(c, g, fam)
	}
}
