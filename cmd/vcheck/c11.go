package main

import (
	"verif/engine/core"
	"verif/engine/peg"
	"verif/engine/rtapi"
)

func init() {
	register(&Check{
		ID: "C11", Level: "exploration", QuickSecs: 150, ThoroughSecs: 1200,
		Rule:        "skeletons over {'a',.,&{},!{},#{},A} x {?,*,&,!} x seq/choice up to N nodes (quick 4, thorough 5) under a rule-level action, second rule A with a display name and its own action; a rule attribute family (three rules with blocks, every assignment of display names (plain ones, and names with percent signs, quotes, a backslash, a non-ASCII rune) x both definition orders of the called rules x 3 call shapes: in sequence, as alternatives erring at the same position and depth, under a predicate and again); every fault script giving each block one of {ok, error e<id>, error with a message shared by all blocks, panic(error), panic(string)} with at most 3 faulting blocks, for code predicates both the matching and the failing result; inputs over {a,b} up to L=2; Recover(true)/Recover(false) x filename empty/non-empty; 2 generation flag sets; plus left-recursive rules (direct, tower, indirect pair) generated with -support-left-recursion with the same fault scripts. Compared with the reference: value, complete error list (text incl. file:line:col (offset): rule prefix, order, de-duplication by message), dynamic type errList of *parserError, Inner pointer-identical to the scripted error, panic containment vs propagation. Non-trivial = at least two recorded errors or a panic. Plus the cross family (cross.go, bodies <= 3 nodes x 16 flag sets, every block in turn failing, invalid-byte inputs, a terminal-only rule with display name).",
		Assumptions: []string{"E1 loader", "scripted probes as code blocks"},
		Run:         runC11,
	})
}

// faultScripts enumerates fault assignments with at most max faulting blocks.
func faultScripts(blocks []*peg.Expr, max int, predOK bool) []map[int]*rtapi.Block {
	faults := []rtapi.Block{{}, {Err: "E"}, {Err: "dup"}, {Err: "p", Panic: 1}, {Err: "s", Panic: 2}}
	var out []map[int]*rtapi.Block
	cur := make([]int, len(blocks))
	var rec func(i, used int)
	rec = func(i, used int) {
		if i == len(blocks) {
			s := map[int]*rtapi.Block{}
			for k, b := range blocks {
				blk := faults[cur[k]]
				if blk.Err == "E" {
					blk.Err = "e" + itoa(b.ID)
				}
				switch b.K {
				case peg.KAndCode:
					blk.Pred = rtapi.PredTrue
					if !predOK {
						blk.Pred = rtapi.PredFalse
					}
				case peg.KNotCode:
					blk.Pred = rtapi.PredFalse
					if !predOK {
						blk.Pred = rtapi.PredTrue
					}
				}
				s[b.ID] = &blk
			}
			out = append(out, s)
			return
		}
		for f := range faults {
			if f > 0 && used == max {
				break
			}
			cur[i] = f
			u := used
			if f > 0 {
				u++
			}
			rec(i+1, u)
		}
	}
	rec(0, 0)
	return out
}

func runC11(c *ShardCtx) {
	nontriv := func(ref *peg.Result, obs *rtapi.Obs) bool {
		return len(ref.Errs) >= 2 || ref.Outcome == peg.OEscaped || (len(ref.Errs) > 0 && ref.Errs[len(ref.Errs)-1].Kind == "panic")
	}
	n := 4
	if c.Thorough() {
		n = 5
	}
	leaves := []*peg.Expr{peg.Lit("a"), peg.Any(), peg.AndCode(0), peg.NotCode(0), peg.StateCode(0), peg.Ref("A")}
	en := peg.NewEnumerator(peg.Alphabet{Leaves: leaves, Unary: []peg.Kind{peg.KOpt, peg.KStar, peg.KAnd, peg.KNot}, Seq: true, Choice: true, MaxArity: 3})
	inputs := peg.Inputs([]string{"a", "b"}, 2)
	opts := []rtapi.RunOpts{{MaxExpr: 600}, {MaxExpr: 600, Filename: "f.txt"}, {MaxExpr: 600, NoRecover: true}, {MaxExpr: 600, NoRecover: true, Filename: "f.txt"}}
	idx := 0
	// left-recursive rules (generated with -support-left-recursion): errors returned inside the
	// seed and inside accepted growth iterations are kept, those of the final attempt are not
	{
		lit := peg.Lit
		inputsLR := peg.Inputs([]string{"a", "b"}, 4)
		var lrs []*peg.Grammar
		for _, t := range []string{"a", "b"} {
			lrs = append(lrs,
				&peg.Grammar{Rules: []*peg.Rule{{Name: "S", Expr: peg.Action(0, peg.Seq(peg.Label("v", peg.Ref("E")), peg.Not(peg.Any())))}, {Name: "E", Expr: peg.Choice(peg.Action(0, peg.Seq(peg.Label("l", peg.Ref("E")), lit(t), peg.Label("r", peg.Ref("T")))), peg.Ref("T"))}, {Name: "T", Display: "term", Expr: peg.Action(0, peg.Cls(false, false, "a", "b"))}}},
				&peg.Grammar{Rules: []*peg.Rule{{Name: "E", Expr: peg.Choice(peg.Action(0, peg.Seq(peg.Ref("E"), lit(t), peg.AndCode(0))), peg.Action(0, lit("b")))}}},
				&peg.Grammar{Rules: []*peg.Rule{{Name: "A", Expr: peg.Choice(peg.Action(0, peg.Seq(peg.Ref("B"), lit(t))), peg.Action(0, lit("a")))}, {Name: "B", Expr: peg.Choice(peg.Action(0, peg.Seq(peg.Ref("A"), lit("b"))), lit("b"))}}},
			)
		}
		// an operand that errs inside a growth attempt which is discarded, and again - for real - at
		// the same position afterwards (the error of the real evaluation belongs in the list)
		lrs = append(lrs,
			&peg.Grammar{Rules: []*peg.Rule{{Name: "S", Expr: peg.Action(0, peg.Seq(peg.Label("v", peg.Ref("E")), lit("b"), peg.Ref("N"), peg.Not(peg.Any())))},
				{Name: "E", Expr: peg.Choice(peg.Seq(peg.Ref("E"), lit("b"), peg.Ref("N"), lit("c")), peg.Ref("N"))}, {Name: "N", Display: "operand", Expr: peg.Action(0, peg.Cls(false, false, "a", "b"))}}},
			&peg.Grammar{Rules: []*peg.Rule{{Name: "S", Expr: peg.Action(0, peg.Seq(peg.Label("v", peg.Ref("E")), peg.Star(peg.Seq(lit("b"), peg.Ref("N")))))},
				{Name: "E", Expr: peg.Choice(peg.Action(0, peg.Seq(peg.Label("l", peg.Ref("E")), lit("b"), peg.Label("r", peg.Ref("N")), lit("c"))), peg.Ref("N"))}, {Name: "N", Expr: peg.Action(0, peg.Cls(false, false, "a", "b"))}}},
		)
		for _, g := range lrs {
			idx++
			if !c.Mine(idx) {
				continue
			}
			peg.Renumber(g, 1)
			peg.AssignArgs(g)
			scr := faultScripts(g.Blocks(), 2, true)
			// every action errs with a message that names the matched text: the action of a growing
			// left-recursive rule errs at ONE start offset with a different message per accepted step
			vary := map[int]*rtapi.Block{}
			for _, blk := range g.Blocks() {
				vary[blk.ID] = &rtapi.Block{Pred: rtapi.PredTrue}
				if blk.K == peg.KAction {
					vary[blk.ID].Err, vary[blk.ID].ErrText = "e"+itoa(blk.ID), true
				}
			}
			scr = append(scr, vary)
			famLR := &family{gens: []core.Gen{{LeftRec: true}, {LeftRec: true, Optimize: true}}, inputs: inputsLR, opts: opts, scripts: scr, nontrivial: nontriv,
				cmp: core.CmpOpts{SkipLog: true}, confEvery: 2, confQuota: 1}
			if g.Rule("A") != nil && g.Rule("B") != nil {
				famLR.refOpts = func(o *peg.Options) { o.LeaderHeads = map[string]bool{"A": true} }
			}
			runGrammar(c, g, famLR)
		}
	}
	// rule attributes: every assignment of display names to three rules (each with blocks that
	// can fail) x both definition orders of the called rules: the prefix names the rule (display
	// name if given) the error arose in, whatever was defined before it
	// (names: plain ones, and names holding what a careless emitter or formatter trips over - percent
	// signs, quotes, a backslash, a non-ASCII rune, a trailing percent sign)
	for mask := 0; mask < 16; mask++ {
		for order := 0; order < 2; order++ {
			if mask >= 8 && mask&7 == 0 {
				continue
			}
			idx++
			if !c.Mine(idx) {
				continue
			}
			names := map[int]string{1: "start", 2: "the A", 4: "a B"}
			if mask >= 8 {
				names = map[int]string{1: "st%art %v", 2: "the A %s 100%", 4: "a \"B\" \\ %d%% \u00e9"}
			}
			disp := func(bit int, d string) string {
				if mask&bit != 0 {
					return names[bit]
				}
				return ""
			}
			ra := &peg.Rule{Name: "A", Display: disp(2, "the A"), Expr: peg.Action(0, peg.Cls(false, false, "a", "b"))}
			rb := &peg.Rule{Name: "B", Display: disp(4, "a B"), Expr: peg.Choice(peg.Action(0, peg.Lit("b")), peg.Seq(peg.AndCode(0), peg.Action(0, peg.Any())))}
			for shape := 0; shape < 3; shape++ {
				var top *peg.Expr
				switch shape {
				case 0:
					top = peg.Seq(peg.Ref("A"), peg.Opt(peg.Ref("B")))
				case 1: // sibling rules recording errors at the SAME position and depth, one after the other
					top = peg.Choice(peg.Seq(peg.Ref("A"), peg.Lit("b")), peg.Ref("B"))
				case 2:
					top = peg.Seq(peg.And(peg.Ref("A")), peg.Ref("B"), peg.Opt(peg.Ref("A")))
				}
				g := &peg.Grammar{Rules: []*peg.Rule{{Name: "S", Display: disp(1, "start"), Expr: peg.Action(0, top)}, {Name: ra.Name, Display: ra.Display, Expr: ra.Expr.Clone()}, {Name: rb.Name, Display: rb.Display, Expr: rb.Expr.Clone()}}}
				if order == 1 {
					g.Rules[1], g.Rules[2] = g.Rules[2], g.Rules[1]
				}
				peg.Renumber(g, 1)
				peg.AssignArgs(g)
				fam := &family{gens: gens2, inputs: inputs, opts: opts, scripts: faultScripts(g.Blocks(), 2, true), nontrivial: nontriv, cmp: core.CmpOpts{SkipLog: true}, confEvery: 5, confQuota: 1}
				runGrammar(c, g, fam)
			}
		}
	}
	// invalid bytes: the 'invalid encoding' errors carry position and rule prefix like every other
	// error (line and column of the byte advanced onto), next to block errors at the same places
	{
		badInputs := peg.Inputs([]string{"a", "\xff", "\n"}, 3)
		for _, body := range en.UpTo(3) {
			idx++
			if !c.Mine(idx) {
				continue
			}
			g := &peg.Grammar{Rules: []*peg.Rule{{Name: "S", Expr: peg.Action(0, peg.Seq(body, peg.Star(peg.Any())))}}}
			if len(peg.RefsOf(body)) > 0 {
				g.Rules = append(g.Rules, &peg.Rule{Name: "A", Display: "the A", Expr: peg.Action(0, peg.Cls(true, false, "b"))})
			}
			peg.Renumber(g, 1)
			peg.AssignArgs(g)
			fam := &family{gens: gens2, inputs: badInputs, opts: opts[:2], scripts: faultScripts(g.Blocks(), 1, true), nontrivial: nontriv, cmp: core.CmpOpts{SkipLog: true}, confEvery: 23, confQuota: 1}
			runGrammar(c, g, fam)
		}
	}
	// histories: every ordered pair of calls over {inputs} x {default, Recover(false), file name,
	// option lists of a wrapper} x {no fault, an action returns an error, an action panics}: what
	// a call did with its options, its errors or a panic must not change the next call
	for hv := 0; hv < 2; hv++ {
		idx++
		if !c.Mine(idx) {
			continue
		}
		g := &peg.Grammar{Rules: []*peg.Rule{
			{Name: "S", Expr: peg.Action(0, peg.Seq(peg.Label("v", peg.Plus(peg.Choice(peg.Ref("A"), peg.Ref("B")))), peg.Not(peg.Any())))},
			{Name: "A", Display: "the A", Expr: peg.Action(0, peg.Lit("a"))}, {Name: "B", Expr: peg.Action(0, peg.Seq(peg.Not(peg.Lit("a")), peg.Cls(false, false, "b", "c")))}}}
		peg.Renumber(g, 1)
		peg.AssignArgs(g)
		gen := core.Gen{Optimize: hv == 1}
		text := peg.Print(g, nil)
		b := buildOrCount(c, text, gen)
		if b == nil {
			continue
		}
		c.Res.Grammars++
		plain, errA, boomB := map[int]*rtapi.Block{}, map[int]*rtapi.Block{}, map[int]*rtapi.Block{}
		for _, blk := range g.Blocks() {
			plain[blk.ID], errA[blk.ID], boomB[blk.ID] = &rtapi.Block{}, &rtapi.Block{}, &rtapi.Block{}
		}
		errA[2].Err = "e2"
		boomB[3].Err, boomB[3].Panic = "boom", 1
		var calls []hcall
		for _, in := range []string{"ab", "aa", "ca", "x", ""} {
			for _, o := range []rtapi.RunOpts{{MaxExpr: 600}, {MaxExpr: 600, NoRecover: true}, {MaxExpr: 600, Filename: "f.txt"}, {MaxExpr: 600, NoRecover: true, Doubled: true}, {MaxExpr: 600, Shadowed: true}} {
				calls = append(calls, hcall{in, o, plain, ""}, hcall{in, o, errA, ", A's action returns an error"}, hcall{in, o, boomB, ", B's action panics"})
			}
		}
		historyPairs(c, b, text, gen, calls)
	}
	historyFamily(c, &idx, gens2)
	// cross family (cross.go): every construct x every flag set, every block in turn failing
	{
		if !runCross(c, &idx, &crossSpec{maxSize: 3, gens: gens16, inputs: crossInputsSmall, opts: []rtapi.RunOpts{{MaxExpr: 600, Filename: "f.txt"}, {MaxExpr: 600, NoRecover: true}},
			scripts: crossFaultScripts, nontrivial: nontriv, cmp: core.CmpOpts{SkipLog: true}}) {
			return
		}
	}
	if c.Thorough() {
		// (the 4-node bodies of the cross family come after the skeleton enumeration)
		defer runCross(c, &idx, &crossSpec{minSize: 4, maxSize: 4, gens: gens16, inputs: crossInputsSmall, opts: []rtapi.RunOpts{{MaxExpr: 600, Filename: "f.txt"}, {MaxExpr: 600, NoRecover: true}},
			scripts: crossFaultScripts, nontrivial: nontriv, cmp: core.CmpOpts{SkipLog: true}})
	}
	for _, body := range en.UpTo(n) {
		idx++
		if !c.Mine(idx) {
			continue
		}
		if c.Expired("skeleton enumeration") {
			return
		}
		g := &peg.Grammar{Rules: []*peg.Rule{{Name: "S", Expr: peg.Action(0, body)}}}
		if len(peg.RefsOf(body)) > 0 {
			g.Rules = append(g.Rules, &peg.Rule{Name: "A", Display: "the A", Expr: peg.Action(0, peg.Cls(false, false, "a", "b"))})
		}
		peg.Renumber(g, 1)
		peg.AssignArgs(g)
		blocks := g.Blocks()
		var scripts []map[int]*rtapi.Block
		scripts = append(scripts, faultScripts(blocks, 3, true)...)
		if g.Has(peg.KAndCode, peg.KNotCode) {
			scripts = append(scripts, faultScripts(blocks, 2, false)...)
		}
		fam := &family{gens: gens2, inputs: inputs, opts: opts, scripts: scripts, nontrivial: nontriv, cmp: core.CmpOpts{SkipLog: true}, confEvery: 23, confQuota: 1}
		runGrammar(c, g, fam)
	}
}
