package main

import (
	"encoding/hex"
	"encoding/json"
	"flag"
	"fmt"
	"os"

	"verif/engine/core"
	"verif/engine/peg"
	"verif/engine/rtapi"
)

// caseMain: vcheck case [-flags] GRAMMARFILE INPUT
// Runs one grammar/input through the loader path and the reference and
// prints both observations (used for demonstrations and replays).
func caseMain(args []string) int {
	fs := flag.NewFlagSet("case", flag.ExitOnError)
	var gen core.Gen
	var o rtapi.RunOpts
	fs.BoolVar(&gen.Optimize, "optimize-parser", false, "")
	fs.BoolVar(&gen.BasicLatin, "optimize-basic-latin", false, "")
	fs.BoolVar(&gen.LeftRec, "support-left-recursion", false, "")
	fs.BoolVar(&gen.OptGrammar, "optimize-grammar", false, "")
	fs.BoolVar(&o.Memoize, "memoize", false, "")
	fs.BoolVar(&o.InitState, "init-state", false, "")
	fs.BoolVar(&o.NoRecover, "no-recover", false, "")
	fs.BoolVar(&o.AllowInvalid, "allow-invalid", false, "")
	max := fs.Uint64("max", 3000, "")
	hexIn := fs.Bool("hex", false, "input is hex")
	scriptJSON := fs.String("script", "", "JSON map id -> Block")
	quirk := fs.String("quirk", "", "reference quirk")
	fs.Parse(args)
	if fs.NArg() != 2 {
		fmt.Fprintln(os.Stderr, "usage: vcheck case [flags] GRAMMARFILE INPUT")
		return 2
	}
	o.MaxExpr = *max
	textb, err := os.ReadFile(fs.Arg(0))
	if err != nil {
		fmt.Fprintln(os.Stderr, err)
		return 2
	}
	in := []byte(fs.Arg(1))
	if *hexIn {
		in, _ = hex.DecodeString(fs.Arg(1))
	}
	var script map[int]*rtapi.Block
	if *scriptJSON != "" {
		if err := json.Unmarshal([]byte(*scriptJSON), &script); err != nil {
			fmt.Fprintln(os.Stderr, err)
			return 2
		}
	}
	w, err := core.NewWorker()
	if err != nil {
		fmt.Fprintln(os.Stderr, err)
		return 2
	}
	defer w.Close()
	text := string(textb)
	g, err := w.ParseGrammar(text)
	if err != nil {
		fmt.Println(err)
		return 2
	}
	b, err := w.Build(text, gen)
	if err != nil {
		fmt.Println(err)
		return 2
	}
	fmt.Printf("build: err=%q panic=%q problems=%v\n", b.Err, b.Panic, b.Problems)
	if !b.OK() {
		return 1
	}
	obs := b.Run(in, &o, script)
	ro := core.RefOptions(&o, b.Flags)
	if *quirk != "" {
		ro.Quirks = map[string]bool{*quirk: true}
	}
	ref := peg.Run(g, in, script, ro)
	fmt.Printf("impl: val=%s errs=%v panic=%q diverged=%v exprs=%d\n", obs.Val, msgs(obs), obs.Panic, obs.Diverged, obs.ExprCnt)
	for _, e := range obs.Log {
		fmt.Println("   ", e)
	}
	fmt.Printf("ref : outcome=%s matched=%v val=%s\n", ref.Outcome, ref.Matched, ref.Val)
	for _, e := range ref.Errs {
		fmt.Println("    err:", peg.ErrMessage(peg.NewPosTable(in), o.Filename, e))
	}
	for _, e := range ref.Log {
		fmt.Println("   ", e)
	}
	d, sk := core.Compare(ref, obs, peg.NewPosTable(in), o.Filename, core.CmpOpts{MaxExpr: o.MaxExpr})
	fmt.Printf("skipped=%v diffs=%v\n", sk, d)
	if len(d) > 0 {
		return 1
	}
	return 0
}
