package main

import (
	"fmt"

	"verif/engine/core"
	"verif/engine/peg"
	"verif/engine/rtapi"
)

// The cross family ("every construct x every flag x every option"). The families of the
// individual checks are deep but narrow: each is built around the constructs its property
// names. What they cannot see is a change that breaks property P only in combination with a
// construct, generation flag or option that P's families do not contain (the most frequent
// reason a seeded change was missed, DESIGN.md 10). The cross family is the complement:
// shallow but complete in breadth. Its bodies are ALL expressions of at most n nodes over
// one alphabet that holds every expression kind of the grammar language:
//
//	terminals  'a'  "ab"  "aB"i  ""  [ab]  [^a]  [Zb-ca]i  [\pL]  .
//	rule reference R (an ordinary rule with a display name, or a left-recursive rule when the
//	             flag set has -support-left-recursion), rule reference T (a rule that is a single
//	             terminal, with a display name), &{..} !{..} #{..} %{l}
//	unary      ? * + & ! label: action
//	binary     sequence, choice, recovery //{l}
//
// under the rule S "start" <- v:(body) &{..} {..}; every check that uses it chooses the
// generation flag sets (up to all 16 combinations of -optimize-parser, -optimize-basic-latin,
// -optimize-grammar, -support-left-recursion), the runtime options, the block scripts, the
// inputs and what is compared, i.e. the slice of the observation its property speaks about.
type crossSpec struct {
	minSize    int // (0: 1)
	maxSize    int
	keep       func(body *peg.Expr) bool
	gens       []core.Gen
	inputs     [][]byte
	opts       []rtapi.RunOpts
	scripts    func(g *peg.Grammar) []map[int]*rtapi.Block
	cmp        core.CmpOpts
	extra      func(g *peg.Grammar, b *core.Built, in []byte, o *rtapi.RunOpts, ref *peg.Result, obs *rtapi.Obs) []string
	nontrivial func(ref *peg.Result, obs *rtapi.Obs) bool
	refOpts    func(o *peg.Options)
	// each is called with every grammar of the family instead of the default runner
	// (differential checks bring their own)
	each func(g *peg.Grammar, lr bool)
}

func crossLeaves() []*peg.Expr {
	return []*peg.Expr{peg.Lit("a"), peg.Lit("ab"), peg.LitI("aB"), peg.Lit(""), peg.Cls(false, false, "a", "b"), peg.Cls(true, false, "a"),
		peg.Cls(false, true, "Z", "b-c", "a"), peg.Cls(false, false, `\pL`), peg.Any(), peg.Ref("R"), peg.Ref("T"), peg.AndCode(0), peg.NotCode(0), peg.StateCode(0), peg.Throw("l")}
}

var crossMemo = map[int][]*peg.Expr{}

// crossBodies returns all bodies with exactly n nodes (labels are named in pre-order).
func crossBodies(n int) []*peg.Expr {
	if r, ok := crossMemo[n]; ok {
		return r
	}
	var out []*peg.Expr
	var sub func(k int) []*peg.Expr
	memo := map[int][]*peg.Expr{}
	sub = func(k int) []*peg.Expr {
		if k <= 0 {
			return nil
		}
		if r, ok := memo[k]; ok {
			return r
		}
		var o []*peg.Expr
		if k == 1 {
			o = crossLeaves()
		} else {
			for _, s := range sub(k - 1) {
				for _, u := range allUnary {
					o = append(o, &peg.Expr{K: u, Kids: []*peg.Expr{s}})
				}
				if s.K != peg.KLabel {
					o = append(o, peg.Label("x", s))
				}
				if s.K != peg.KAction {
					o = append(o, peg.Action(0, s))
				}
			}
			for s1 := 1; s1 <= k-2; s1++ {
				for _, e1 := range sub(s1) {
					for _, e2 := range sub(k - 1 - s1) {
						if e1.K != peg.KSeq && e2.K != peg.KSeq {
							o = append(o, peg.Seq(e1, e2))
						}
						if e1.K != peg.KChoice && e2.K != peg.KChoice {
							o = append(o, peg.Choice(e1, e2))
						}
						if e2.K != peg.KRecover {
							o = append(o, peg.Recover(e1, e2, "l"))
						}
					}
				}
			}
		}
		memo[k] = o
		return o
	}
	for _, b := range sub(n) {
		c := b.Clone()
		names := []string{"é", "y", "zπ", "w"} // (identifiers may be any letters: a label that starts / ends with a non-ASCII letter)
		i := 0
		c.Walk(func(e *peg.Expr) {
			if e.K == peg.KLabel {
				e.Name = names[i%len(names)]
				i++
			}
		})
		out = append(out, c)
	}
	crossMemo[n] = out
	return out
}

// crossGrammar puts a body under the start rule; lr selects the left-recursive helper rule.
func crossGrammar(body *peg.Expr, lr bool) *peg.Grammar {
	g := &peg.Grammar{Rules: []*peg.Rule{{Name: "S", Display: "start", Expr: peg.Action(0, peg.Seq(peg.Label("v", body.Clone()), peg.AndCode(0)))}}}
	refs := map[string]bool{}
	for _, r := range peg.RefsOf(body) {
		refs[r] = true
	}
	if refs["T"] {
		defer func() {
			g.Rules = append(g.Rules, &peg.Rule{Name: "T", Display: "tee", Expr: peg.Cls(false, false, "a", "b")})
		}()
	}
	if refs["R"] {
		if lr {
			g.Rules = append(g.Rules, &peg.Rule{Name: "R", Expr: peg.Choice(peg.Action(0, peg.Seq(peg.Label("l", peg.Ref("R")), peg.Label("r", peg.Lit("b")))), peg.Lit("a"))})
		} else {
			g.Rules = append(g.Rules, &peg.Rule{Name: "R", Display: "the R", Expr: peg.Choice(peg.Action(0, peg.Label("r", peg.Lit("a"))), peg.Seq(peg.Lit("b"), peg.Lit("a")))})
		}
	}
	peg.Renumber(g, 1)
	peg.AssignArgs(g)
	return g
}

// flatKey is the event key used for parsers built with -optimize-grammar: structural label
// values may be regrouped, their concatenated text may not; what actions made is kept.
func flatKey(inner func(rtapi.Event) string) func(rtapi.Event) string {
	return func(e rtapi.Event) string {
		f := e
		f.Labels = e.Flats
		if inner != nil {
			return inner(f)
		}
		return f.String()
	}
}

var (
	gens16 = func() []core.Gen {
		var out []core.Gen
		for m := 0; m < 16; m++ {
			out = append(out, core.Gen{Optimize: m&1 != 0, BasicLatin: m&2 != 0, OptGrammar: m&4 != 0, LeftRec: m&8 != 0})
		}
		return out
	}()
	crossInputs = func() [][]byte {
		out := peg.Inputs([]string{"a", "b"}, 3)
		for _, s := range []string{"B", "aB", "é", "aé", "éa", "\n", "a\na", "\x80", "a\x80b", "\xff"} {
			out = append(out, []byte(s))
		}
		return out
	}()
)

// runCross enumerates the family; it returns false when the deadline cut it.
func runCross(c *ShardCtx, idx *int, s *crossSpec) bool {
	for size := max(1, s.minSize); size <= s.maxSize; size++ {
		for _, body := range crossBodies(size) {
			if s.keep != nil && !s.keep(body) {
				continue
			}
			*idx++
			if !c.Mine(*idx) {
				continue
			}
			if c.Expired(fmt.Sprintf("cross family cut at body size %d", size)) {
				return false
			}
			c.Res.Counters["cross_family_grammars"]++
			hasRef := false
			for _, r := range peg.RefsOf(body) {
				hasRef = hasRef || r == "R"
			}
			for _, lr := range []bool{false, true} {
				if lr && !hasRef {
					continue
				}
				g := crossGrammar(body, lr)
				if s.each != nil {
					s.each(g, lr)
					continue
				}
				var plain, optg []core.Gen
				for _, gen := range s.gens {
					if gen.LeftRec != lr && hasRef {
						continue
					}
					if gen.LeftRec && !hasRef {
						continue // nothing recursive: the flag changes nothing the other sets do not show
					}
					if gen.OptGrammar {
						if hasRef {
							gen.AltEntry = []string{"R"} // R stays a usable entrypoint (and is still inlined where it is used)
						}
						optg = append(optg, gen)
					} else {
						plain = append(plain, gen)
					}
				}
				var scripts []map[int]*rtapi.Block
				if s.scripts != nil {
					scripts = s.scripts(g)
				}
				if len(plain) > 0 {
					runGrammar(c, g, &family{gens: plain, inputs: s.inputs, opts: s.opts, scripts: scripts, cmp: s.cmp, extra: s.extra, nontrivial: s.nontrivial, refOpts: s.refOpts, confEvery: 397, confQuota: 1})
				}
				if len(optg) > 0 {
					co := s.cmp
					co.FlatVal = true
				co.SkipNoMatch = true // the optimizer joins terminals: the expected list names the terminals of the optimized grammar
					co.EventKey = flatKey(s.cmp.EventKey)
					runGrammar(c, g, &family{gens: optg, inputs: s.inputs, opts: s.opts, scripts: scripts, cmp: co, extra: s.extra, nontrivial: s.nontrivial, refOpts: s.refOpts, confEvery: 397, confQuota: 1})
				}
			}
		}
	}
	return true
}

// crossPredScripts: every code predicate true / every code predicate false (two scripts; the
// families of C02 hold every assignment).
func crossPredScripts(g *peg.Grammar) []map[int]*rtapi.Block {
	out := []map[int]*rtapi.Block{}
	for _, m := range [][2]int{{rtapi.PredTrue, rtapi.PredFalse}, {rtapi.PredFalse, rtapi.PredTrue}} {
		s := map[int]*rtapi.Block{}
		for _, b := range g.Blocks() {
			switch b.K {
			case peg.KAndCode:
				s[b.ID] = &rtapi.Block{Pred: m[0]}
			case peg.KNotCode:
				s[b.ID] = &rtapi.Block{Pred: m[1]}
			default:
				s[b.ID] = &rtapi.Block{}
			}
		}
		if tp := crossTopPred(g); tp != nil {
			s[tp.ID].Pred = rtapi.PredTrue
		}
		out = append(out, s)
	}
	return out
}

// crossTopPred is the &{..} that closes the start rule.
func crossTopPred(g *peg.Grammar) *peg.Expr {
	top := g.Rules[0].Expr // action
	seq := top.Kids[0]
	if seq.K == peg.KSeq && len(seq.Kids) == 2 && seq.Kids[1].K == peg.KAndCode {
		return seq.Kids[1]
	}
	return nil
}

// crossInputsSmall is a sub-set of crossInputs for checks that multiply every case by many
// scripts and option sets.
var crossInputsSmall = func() [][]byte {
	var out [][]byte
	for _, s := range []string{"", "a", "b", "ab", "ba", "aa", "aab", "aB", "é", "a\na", "\x80", "a\x80b"} {
		out = append(out, []byte(s))
	}
	return out
}()

// crossFaultScripts: the two predicate scripts, and every block in turn returning an error,
// panicking with an error, panicking with a string (all blocks try to change the stores).
func crossFaultScripts(g *peg.Grammar) []map[int]*rtapi.Block {
	scripts := crossPredScripts(g)
	blocks := g.Blocks()
	for k, b := range blocks {
		s := map[int]*rtapi.Block{}
		for _, b2 := range blocks {
			s[b2.ID] = &rtapi.Block{Ops: rtapi.OpShallow | rtapi.OpCloner | rtapi.OpGlobal}
		}
		s[b.ID].Err = "e" + itoa(b.ID)
		s[b.ID].Panic = k % 3
		scripts = append(scripts, s)
	}
	return scripts
}
